"""Beyond the listed properties: FileUpload.save, the step that puts an upload on the server's disk (specs/Upload.tla).

1. TLC, both grains over every tree of two top-level names: with save as ONE step (the sequential meaning) the five caller
   clauses NoClobber / CursorKept / OneTarget / SavedIsRest / DirsStay hold; with the code's real two looks at the tree
   (isdir + exists, then open) and the environment free to act in between, NoClobber is violated (check-then-open race)
   and the other four still hold.
2. code: random histories of save / read / seek / environment steps on a real FileUpload in a scratch directory, both as
   plain calls (atomic grain) and with the environment acting at the moment save opens its target (split grain, by
   shadowing `open` in the helpers module for the duration of the call); every recorded step [pre, act, post] is judged
   by TLC: post = Apply(pre, act) (mechanism) and the clauses (caller level)."""
import io
import json
import os
import random
import shutil
import tempfile
import time

from harness import core

RAWS = ['up.bin', '../b', '..\\a', 'a b.txt', '..', '', '/etc/passwd', 'b', '.hidden', 'été.txt', 'x/../../b']
CHUNKS = [0, 1, 2, 65536]


class Acc:
    def __init__(self):
        self.states = self.transitions = self.traces_validated = 0
        self.tlc = []

    def add_tlc(self, r, what):
        self.states += r.distinct
        self.transitions += r.generated
        self.tlc.append('%s: %d distinct, %.1fs' % (what, r.distinct, r.wall))


NOPEND = {'on': False, 't': 0, 'ch': 0, 'ow': False}


def act(op, **kw):
    a = {'op': op, 'i': 0, 'ow': False, 'ch': 0, 'n': 0, 'k': 0, 'd': []}
    a.update(kw)
    return a


class World:
    """The real objects plus the projection onto the spec's state."""
    TOPS = ['a', 'b']

    def __init__(self, data, raw, helpers):
        self.helpers = helpers
        self.root = tempfile.mkdtemp(prefix='verif-upload-')
        self.data = data
        self.up = helpers.FileUpload(io.BytesIO(data), 'f', raw)
        self.fname = self.up.filename
        self.sink = io.BytesIO()
        self.res, self.pend = 'none', dict(NOPEND)
        self.records = []

    def close(self):
        shutil.rmtree(self.root, ignore_errors=True)

    def top(self, i):
        return os.path.join(self.root, 'nodir', 'x') if i == 0 else os.path.join(self.root, self.TOPS[i - 1])

    def place_of(self, path):
        path = os.path.abspath(path)
        for i in (1, 2):
            if path == self.top(i):
                return i
            if path == os.path.join(self.top(i), self.fname):
                return i + 2
        return 0 if path == self.top(0) else -1

    @staticmethod
    def entry(path):
        if os.path.isdir(path):
            return {'k': 'dir', 'd': []}
        if os.path.exists(path):
            return {'k': 'file', 'd': list(open(path, 'rb').read())}
        return {'k': 'none', 'd': []}

    def project(self):
        fs = [self.entry(self.top(1)), self.entry(self.top(2))]
        stray = sorted(set(os.listdir(self.root)) - set(self.TOPS))
        for i in (1, 2):
            child = os.path.join(self.top(i), self.fname)
            fs.append(self.entry(child) if fs[i - 1]['k'] == 'dir' else {'k': 'none', 'd': []})
            if fs[i - 1]['k'] == 'dir':
                stray += [self.TOPS[i - 1] + '/' + n for n in os.listdir(self.top(i)) if n != self.fname]
                if fs[-1]['k'] == 'dir' and os.listdir(child):
                    stray.append(self.TOPS[i - 1] + '/' + self.fname + '/*')
        return {'data': list(self.data), 'fs': fs, 'pos': self.up.file.tell(), 'sink': list(self.sink.getvalue()),
                'res': self.res, 'pend': dict(self.pend)}, bool(stray)

    def log(self, pre, a, note=''):
        post, stray = self.project()
        self.records.append({'pre': pre, 'act': a, 'post': post, 'stray': stray, 'note': note, 'raw': self.up.raw_filename})
        return post

    # ---- environment
    def env_enabled(self, st):
        out = []
        for i in (1, 2):
            k, ck = st['fs'][i - 1]['k'], st['fs'][i + 1]['k']
            if k == 'none':
                out += [act('mkfile', i=i, d=[]), act('mkfile', i=i, d=[9]), act('mkdir', i=i)]
            else:
                out.append(act('rm', i=i))
            if k == 'dir' and ck == 'none':
                out += [act('mkchild', i=i, d=[9, 9]), act('mkchilddir', i=i)]
            if ck != 'none':
                out.append(act('rmchild', i=i))
        return out

    def do_env(self, a):
        p = self.top(a['i'])
        c = os.path.join(p, self.fname)
        op = a['op']
        if op == 'mkfile':
            open(p, 'wb').write(bytes(a['d']))
        elif op == 'mkdir':
            os.mkdir(p)
        elif op == 'rm':
            shutil.rmtree(p) if os.path.isdir(p) else os.remove(p)
        elif op == 'mkchild':
            open(c, 'wb').write(bytes(a['d']))
        elif op == 'mkchilddir':
            os.mkdir(c)
        elif op == 'rmchild':
            shutil.rmtree(c) if os.path.isdir(c) else os.remove(c)
        self.res = 'none'

    # ---- the upload's own steps
    def outcome(self, fn):
        try:
            fn()
            return 'ok'
        except OSError as e:
            return 'exists' if e.errno is None else 'oserror'
        except Exception as e:   # noqa
            return 'raised:' + type(e).__name__

    def save_atomic(self, i, ow, ch):
        pre, _ = self.project()
        self.res = self.outcome(lambda: self.up.save(self.top(i), overwrite=ow, chunk_size=ch))
        self.log(pre, act('save', i=i, ow=ow, ch=ch))

    def save_split(self, i, ow, ch, rng):
        """The environment takes up to two steps at the moment save opens its target."""
        pre, _ = self.project()
        seen = {}
        helpers = self.helpers

        def spy_open(path, *a, **kw):
            if not seen:
                seen['t'] = self.place_of(path)
                self.res, self.pend = 'pending', {'on': True, 't': seen['t'], 'ch': ch, 'ow': ow}
                mid = self.log(pre, act('savecheck', i=i, ow=ow, ch=ch))
                for _ in range(rng.choice([0, 1, 1, 2])):
                    en = self.env_enabled(mid)
                    if not en:
                        break
                    e = rng.choice(en)
                    keep = self.res, dict(self.pend)
                    self.do_env(e)
                    self.pend = keep[1]
                    mid = self.log(mid, e, 'during save')
                seen['mid'] = mid
            return open(path, *a, **kw)
        helpers.open = spy_open          # shadows the builtin inside ombott.request_pkg.helpers only
        try:
            res = self.outcome(lambda: self.up.save(self.top(i), overwrite=ow, chunk_size=ch))
        finally:
            del helpers.open
        self.res, self.pend = res, dict(NOPEND)
        if 'mid' in seen:
            self.log(seen['mid'], act('saveopen'))
        else:
            self.log(pre, act('savecheck', i=i, ow=ow, ch=ch))

    def save_to(self, ch):
        pre, _ = self.project()
        self.res = self.outcome(lambda: self.up.save(self.sink, chunk_size=ch))
        self.log(pre, act('saveto', ch=ch))

    def read(self, n):
        pre, _ = self.project()
        self.up.file.read(n)
        self.res = 'none'
        self.log(pre, act('read', n=n))

    def seek(self, k):
        pre, _ = self.project()
        self.up.file.seek(k)
        self.res = 'none'
        self.log(pre, act('seek', k=k))


def history(rng, helpers, steps, split):
    data = bytes(rng.randrange(1, 9) for _ in range(rng.choice([0, 1, 3, 5])))
    w = World(data, rng.choice(RAWS), helpers)
    try:
        for _ in range(steps):
            r = rng.random()
            st, _ = w.project()
            if r < 0.45:
                i, ow, ch = rng.choice([0, 1, 1, 2, 2]), rng.random() < 0.4, rng.choice(CHUNKS)
                (w.save_split(i, ow, ch, rng) if split else w.save_atomic(i, ow, ch))
            elif r < 0.55:
                w.save_to(rng.choice(CHUNKS))
            elif r < 0.65:
                w.read(rng.choice([1, 2]))
            elif r < 0.72:
                w.seek(rng.randrange(0, len(data) + 1))
            else:
                en = w.env_enabled(st)
                if en:
                    e = rng.choice(en)
                    w.do_env(e)
                    w.log(st, e)
        return w.records
    finally:
        w.close()


def run(tier, seed):
    from ombott.request_pkg import helpers
    t0 = time.time()
    rng = random.Random(seed + 4242)
    acc = Acc()
    ws = core.tla_workspace()
    verdicts = {}
    for cfg, expect in (('MC_Upload_atomic.cfg', []), ('MC_Upload_split.cfg', ['InvNoClobber']), ('MC_Upload_split_rest.cfg', [])):
        r = core.run_tlc(ws, 'MC_Upload', cfg, allow_violation=True)
        acc.add_tlc(r, 'exhaustive %s' % cfg)
        verdicts[cfg] = r.violated
        if sorted(r.violated) != expect:
            raise core.MachineryError('%s: expected violated=%s, TLC says %s' % (cfg, expect, r.violated))
    recs = []
    n = 400 if tier == 'thorough' else 80
    for h in range(n):
        recs += history(rng, helpers, 14, split=bool(h % 2))
    missing, fails = core.validate_records(acc, 'UploadTrace', recs, 'save steps', strip=lambda r: {k: r[k] for k in ('pre', 'act', 'post', 'stray')})
    # the race is a property failure of the split grain that the model predicts; anything else is reported
    race = {i for i, cl in fails.items() if cl == {'NoClobber'} and recs[i]['act']['op'] == 'saveopen' and i not in missing}
    other = {i: cl for i, cl in fails.items() if i not in race}
    out = {'name': 'upload', 'tier': tier, 'steps_checked': len(recs), 'tlc_verdicts': verdicts,
           'race_witnesses_in_real_code': len(race), 'property_failures': [], 'model_mismatches': [],
           'states': acc.states, 'tlc_runs': acc.tlc,
           'action_counts': {o: sum(1 for r in recs if r['act']['op'] == o) for o in sorted({r['act']['op'] for r in recs})},
           'result_counts': {o: sum(1 for r in recs if r['post']['res'] == o) for o in sorted({r['post']['res'] for r in recs})}}
    for i in sorted(race)[:2]:
        out.setdefault('race_examples', []).append({k: recs[i][k] for k in ('pre', 'act', 'post', 'raw')})
    for i, cl in sorted(other.items())[:10]:
        out['property_failures'].append({'clauses': sorted(cl), **{k: recs[i][k] for k in ('pre', 'act', 'post', 'raw', 'stray')}})
    for i in sorted(missing)[:10]:
        out['model_mismatches'].append({k: recs[i][k] for k in ('pre', 'act', 'post', 'raw', 'stray')})
    out['wall_s'] = round(time.time() - t0, 1)
    if not os.environ.get('VERIF_NO_EVIDENCE'):
        os.makedirs(os.path.join(core.VERIF, 'extras'), exist_ok=True)
        json.dump(out, open(os.path.join(core.VERIF, 'extras', 'upload.json'), 'w'), indent=1)
    print('extra upload %s: states=%d steps=%d race_witnesses=%d property_failures=%d model_mismatches=%d wall=%.1fs'
          % (tier, acc.states, len(recs), len(race), len(other), len(missing), out['wall_s']))
    for m in (out['property_failures'] + out['model_mismatches'])[:4]:
        print('  ', json.dumps(m)[:400])
    return 3 if (other or missing) else 0
