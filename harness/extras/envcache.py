"""Beyond the listed properties: the environ cache of Request (specs/EnvCache.tla).

1. TLC, exhaustive: the as-is invalidation table is incoherent exactly at StalePairs (and nowhere else); the full
   (transitive) table is coherent.
2. spec -> code: TLC-simulated call sequences are replayed on a real Request; every read must return the value a fresh
   Request computes over the environ versions the model predicts (the snapshot).
3. code -> spec: random call sequences on a real Request over all keys; every read is logged with the set of snapshots
   that explain its value; TLC validates the log against the as-is model (EnvCacheTrace)."""
import io
import itertools
import json
import os
import random
import re
import time

from harness import core

KEYS = ["QUERY_STRING", "HTTP_COOKIE", "HTTP_ACCEPT", "HTTP_HOST", "PATH_INFO", "SCRIPT_NAME",
        "CONTENT_TYPE", "CONTENT_LENGTH", "wsgi.input", "HTTP_X_FORWARDED_FOR"]
BODY_TAIL = b'&g=' + b'x' * 6


def body_bytes(v):
    return b'f=%d' % v + BODY_TAIL


def val(k, v):
    if k == 'QUERY_STRING':
        return 'q=%d&r=1' % v
    if k == 'HTTP_COOKIE':
        return 'c=%d; d=1' % v
    if k == 'HTTP_ACCEPT':
        return ['application/json', 'text/html', 'application/json; q=0.5', 'text/plain'][v]
    if k == 'HTTP_HOST':
        return 'host%d.example' % v
    if k == 'PATH_INFO':
        return '/p%d/x' % v
    if k == 'SCRIPT_NAME':
        return '/s%d' % v
    if k == 'CONTENT_TYPE':
        return 'application/x-www-form-urlencoded; v=%d' % v
    if k == 'CONTENT_LENGTH':
        return str(len(body_bytes(0)) - v)
    if k == 'wsgi.input':
        return io.BytesIO(body_bytes(v))
    if k == 'HTTP_X_FORWARDED_FOR':
        return '10.0.0.%d, 10.1.1.1' % v
    raise KeyError(k)


def environ(versions):
    env = {'REQUEST_METHOD': 'POST', 'SERVER_NAME': 'srv', 'SERVER_PORT': '80', 'wsgi.url_scheme': 'http',
           'SERVER_PROTOCOL': 'HTTP/1.1', 'wsgi.errors': io.StringIO()}
    for k in KEYS:
        env[k] = val(k, versions.get(k, 0))
    return env


def canon(x):
    if isinstance(x, io.IOBase):
        pos = x.tell()
        x.seek(0)
        d = x.read()
        x.seek(pos)
        return ['stream', d.decode('latin1')]
    if isinstance(x, dict) or hasattr(x, 'items'):
        return ['dict', sorted([k, canon(v)] for k, v in x.items())]
    if isinstance(x, (list, tuple)):
        return ['seq', [canon(i) for i in x]]
    if isinstance(x, (str, int, bool)) or x is None:
        return x
    return repr(x)


def read_prop(rq, p):
    try:
        return ['ok', canon(getattr(rq, '_body' if p == 'body' else {'post': 'POST'}.get(p, p)))]
    except Exception as e:   # noqa
        return ['raised', type(e).__name__]


_fresh = {}


def fresh_value(p, snap_items):
    """The value of property p on a fresh Request over an environ with the given versions."""
    key = (p, snap_items)
    if key not in _fresh:
        from ombott.request_pkg.request import Request
        import threading

        # on a thread of its own: within one thread every Request instance uses the store of the instance initialised
        # last (known finding C10-same-thread), so a fresh Request made here would hijack the request under test
        def work():
            rq = Request(environ(dict(snap_items)))
            _fresh[key] = read_prop(rq, p)
        t = threading.Thread(target=work)
        t.start()
        t.join()
    return _fresh[key]


def trans_keys(ws):
    """TransKeys(p) for every property, evaluated by TLC from the spec (single source of truth)."""
    with open(os.path.join(ws, 'TK.tla'), 'w') as fh:
        fh.write('---- MODULE TK ----\nEXTENDS EnvCache, Json\nASSUME PrintT(<<"TK", ToJson([p \\in Props |-> TransKeys(p)])>>)\n'
                 'ASSUME PrintT(<<"SP", ToJson(StalePairs)>>)\n====\n')
    with open(os.path.join(ws, 'TK.cfg'), 'w') as fh:
        fh.write('SPECIFICATION Spec\nCONSTANTS\n  MaxV = 1\n  FullInval = FALSE\n  VarKeys = {}\nCHECK_DEADLOCK FALSE\n')
    r = core.run_tlc(ws, 'TK', 'TK.cfg', workers=1, allow_violation=True)
    tk = r.printed_json('TK')[-1]
    sp = r.printed_json('SP')[-1]
    return {p: sorted(ks) for p, ks in tk.items()}, sorted(map(tuple, sp))


class Acc:
    def __init__(self):
        self.states = self.transitions = self.traces_validated = 0
        self.tlc = []

    def add_tlc(self, r, what):
        self.states += r.distinct
        self.transitions += r.generated
        self.tlc.append('%s: %d distinct / %d generated, %.1fs' % (what, r.distinct, r.generated, r.wall))


def run(tier, seed):
    t0 = time.time()
    thorough = tier == 'thorough'
    rng = random.Random(seed * 131 + 7)
    acc = Acc()
    ws = core.tla_workspace()
    TK, stale = trans_keys(ws)
    out = {'name': 'envcache', 'tier': tier, 'stale_pairs_of_the_as_is_table': [list(x) for x in stale], 'mismatches': []}
    # 1. exhaustive
    for g in ('body', 'url', 'hdr'):
        r = core.run_tlc(ws, 'MC_EnvCache', 'MC_EnvCache_asis_%s.cfg' % g, allow_violation=True)
        acc.add_tlc(r, 'exhaustive as-is table, keys %s: TypeOK, OnlyKnownStale, NoThinAir' % g)
        if not r.ok:
            raise core.MachineryError('EnvCache as-is model: %s' % r.violated)
        r = core.run_tlc(ws, 'MC_EnvCache', 'MC_EnvCache_full_%s.cfg' % g, allow_violation=True)
        acc.add_tlc(r, 'exhaustive full table, keys %s: Coherent' % g)
        if not r.ok:
            raise core.MachineryError('EnvCache full-table model is not coherent: %s' % r.violated)
    # non-vacuity: the as-is table does violate Coherent
    cfg = open(os.path.join(ws, 'MC_EnvCache_asis_url.cfg')).read().replace('INVARIANT OnlyKnownStale', 'INVARIANT Coherent')
    open(os.path.join(ws, 'nv.cfg'), 'w').write(cfg)
    r = core.run_tlc(ws, 'MC_EnvCache', 'nv.cfg', allow_violation=True)
    acc.add_tlc(r, 'as-is table violates Coherent (expected)')
    out['as_is_table_coherent'] = bool(r.ok)
    if r.ok:
        raise core.MachineryError('the as-is model satisfies Coherent: the model no longer represents the incomplete table')
    # 2. spec -> code
    from ombott.request_pkg.request import Request
    replayed = reads = 0
    for g in ('body', 'url', 'hdr'):
        r = core.run_tlc(ws, 'MC_EnvCacheSim', 'MC_EnvCacheSim_%s.cfg' % g, workers=1, simulate='num=%d' % (1500 if thorough else 250),
                         depth=13, seed=seed + 11)
        acc.add_tlc(r, 'simulated behaviours, keys %s' % g)
        for hist in r.printed_json('W'):
            versions = {k: 0 for k in KEYS}
            rq = Request(environ(versions))
            replayed += 1
            for step, o in enumerate(hist):
                if o['op'] == 'set':
                    versions[o['k']] = o['v']
                    rq[o['k']] = val(o['k'], o['v'])
                else:
                    reads += 1
                    got = read_prop(rq, o['p'])
                    want = fresh_value(o['p'], tuple(sorted(o['snap'].items())))
                    if got != want and len(out['mismatches']) < 10:
                        out['mismatches'].append({'direction': 'spec->code', 'history': hist[:step + 1], 'got': got, 'model_predicts': want})
    out['behaviours_replayed'] = replayed
    out['reads_compared'] = reads
    # 3. code -> spec
    MAXV = 3
    traces = []
    props = sorted(TK)
    for _ in range(3000 if thorough else 400):
        versions = {k: 0 for k in KEYS}
        rq = Request(environ(versions))
        tr = []
        for _ in range(rng.randint(3, 14)):
            if rng.random() < 0.45:
                k = rng.choice(KEYS)
                v = rng.randint(0, MAXV)
                versions[k] = v
                rq[k] = val(k, v)
                tr.append({'op': 'set', 'k': k, 'v': v})
            else:
                p = rng.choice(props)
                got = read_prop(rq, p)
                ks = TK[p]
                cands = []
                for combo in itertools.product(range(MAXV + 1), repeat=len(ks)):
                    snap = dict(zip(ks, combo))
                    if fresh_value(p, tuple(sorted(snap.items()))) == got:
                        cands.append(snap)
                tr.append({'op': 'read', 'p': p, 'cands': cands, 'got': got})
        traces.append(tr)
    strip = lambda tr: [{k: v for k, v in o.items() if k != 'got'} for o in tr]   # noqa
    missing, _ = core.validate_records(acc, 'EnvCacheTrace', traces, 'random call sequences', strip=strip)
    out['traces_recorded'] = len(traces)
    out['traces_explained_by_model'] = len(traces) - len(missing)
    for i in sorted(missing)[:5]:
        out['mismatches'].append({'direction': 'code->spec', 'trace': traces[i]})
    out['states'] = acc.states
    out['transitions'] = acc.transitions
    out['tlc_runs'] = acc.tlc
    out['wall_s'] = round(time.time() - t0, 1)
    os.makedirs(os.path.join(core.VERIF, 'extras'), exist_ok=True)
    if not os.environ.get('VERIF_NO_EVIDENCE'):
        json.dump(out, open(os.path.join(core.VERIF, 'extras', 'envcache.json'), 'w'), indent=1)
    print('extra envcache %s: states=%d behaviours_replayed=%d reads=%d traces=%d explained=%d stale_pairs=%d mismatches=%d wall=%.1fs'
          % (tier, acc.states, replayed, reads, len(traces), out['traces_explained_by_model'], len(stale), len(out['mismatches']), out['wall_s']))
    for m in out['mismatches'][:3]:
        print('MODEL-MISMATCH', json.dumps(m)[:600])
    return 3 if out['mismatches'] else 0
