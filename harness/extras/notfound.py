"""Beyond the listed properties: sub-tree "not found" handlers, Ombott.error(404, rule) (specs/MC_NotFound.tla).

1. TLC, exhaustive over edit histories of routes and hooked rules (depth 4): whatever handler the code calls belongs to a
   rule that matches a prefix of the path and is called with exactly that prefix (CalledIsAncestor holds); the readings
   "the nearest handler above the path answers" (NearestAgree) and "a handler above the path is never skipped"
   (NoneSkipped) do NOT hold for the mechanism as written -- TLC's counterexamples are reported.
2. spec -> code: one history per distinct router state is replayed on a real application; every probe no route matches is
   requested through WSGI and the handler called (or the plain 404) is compared with the model's prediction."""
import json
import os
import random
import time

from harness import core
from harness.checks import routerlib as rl
from harness.checks.bodylib import base_environ, call_app


def replay(hist, probes, rng):
    from ombott import Ombott, HTTPError
    app = Ombott()
    called = []
    for o in hist:
        r = o['r']
        text = rl.render(r['pat'], r['filters'], r['names'], rng, rng.randrange(12))
        if o['op'] == 'add':
            try:
                app.route(text, method=sorted(r['meths']), callback=(lambda rid=r['id']: (lambda **kw: 'route:' + rid))())
            except Exception:   # noqa  (rejected registrations are part of the histories)
                pass
        elif o['op'] == 'remove_rule':
            try:
                app.remove_route(text)
            except Exception:   # noqa
                pass
        elif o['op'] == 'add_hook':
            def handler(prefix, values, pat=r['pat']):
                called.append([pat, prefix, list(values)])
                return HTTPError(404, 'nothing below ' + prefix)
            try:
                app.error(404, text)(handler)
            except Exception:   # noqa
                pass
        elif o['op'] == 'remove_hook':
            try:
                app.remove_route_hook(text)
            except Exception:   # noqa
                pass
    out = []
    for pr in probes:
        path, ans = pr['path'], pr['ans']
        if not path or 10 in path:
            continue
        del called[:]
        p = '/' + rl.l2s(path)
        env = base_environ(REQUEST_METHOD='GET', PATH_INFO=p.encode('utf8').decode('latin1'))
        status, line, headers, body, nsr = call_app(app, env)
        if ans['k'] == 'partial':
            want = [[ans['h'], '/' + rl.l2s(path[:ans['pos']]), [rl.l2s(v) for v in ans['vals']]]]
        else:
            want = []
        got = [[c[0], c[1], [str(v) for v in c[2]]] for c in called]
        ok = status == 404 and got == want
        out.append({'path': p, 'status': status, 'called': got, 'model': want, 'ok': ok})
    return out


def run(tier, seed):
    t0 = time.time()
    rng = random.Random(seed * 7 + 404)
    ws = core.tla_workspace()
    res = {'name': 'notfound', 'tier': tier, 'tlc': [], 'mismatches': []}
    states = 0
    for inv, expect in (('CalledIsAncestor', True), ('NearestAgree', False), ('NoneSkipped', False)):
        r = core.run_tlc(ws, 'MC_NotFound', 'MC_NotFound_%s.cfg' % inv, allow_violation=True, workers=8)
        states += r.distinct
        res['tlc'].append({'invariant': inv, 'holds': bool(r.ok), 'distinct': r.distinct, 'expected_to_hold': expect})
        if bool(r.ok) != expect:
            raise core.MachineryError('MC_NotFound: %s %s, expected the opposite' % (inv, 'holds' if r.ok else 'is violated'))
    r = core.run_tlc(ws, 'MC_NotFound', 'MC_NotFound_cover.cfg', workers=1, timeout=3000)
    states += r.distinct
    wl = r.printed_json('W')
    if tier != 'thorough' and len(wl) > 60:
        wl = rng.sample(wl, 60)
    n = bad = 0
    for w in wl:
        for row in replay(w['hist'], w['probes'], rng):
            n += 1
            if not row['ok']:
                bad += 1
                if len(res['mismatches']) < 8:
                    res['mismatches'].append({'history': [[o['op'], rl.l2s(o['r']['pat'])] for o in w['hist']], **row})
    res.update(histories_replayed=len(wl), requests_compared=n, states=states, wall_s=round(time.time() - t0, 1))
    if not os.environ.get('VERIF_NO_EVIDENCE'):
        os.makedirs(os.path.join(core.VERIF, 'extras'), exist_ok=True)
        json.dump(res, open(os.path.join(core.VERIF, 'extras', 'notfound.json'), 'w'), indent=1)
    print('extra notfound %s: states=%d histories=%d requests=%d mismatches=%d wall=%.1fs' % (tier, states, len(wl), n, bad, res['wall_s']))
    for m in res['mismatches'][:3]:
        print('MODEL-MISMATCH', json.dumps(m)[:500])
    return 3 if bad else 0
