"""Beyond the listed properties: FileUpload.filename, the file-system safe name of an upload (specs/Filename.tla).

1. TLC: for every raw name of <= 4 symbols over a 16-symbol alphabet (letters, digit, dot, dash, underscore, white space,
   both slashes, colon, accented / compatibility / dropped characters) the sanitised name is Safe and sanitising is idempotent.
2. code: every raw name of <= 3 symbols plus random long ones go through the real property; TLC judges Safe / Idempotent on
   the real results and compares them with the transcription (mechanism conformance)."""
import itertools
import json
import os
import random
import time

from harness import core

ALPHA = [97, 65, 49, 46, 45, 95, 32, 47, 92, 233, 9, 58, 160, 65295, 223, 189]


class Acc:
    def __init__(self):
        self.states = self.transitions = self.traces_validated = 0
        self.tlc = []

    def add_tlc(self, r, what):
        self.states += r.distinct
        self.transitions += r.generated
        self.tlc.append('%s: %d distinct, %.1fs' % (what, r.distinct, r.wall))


def run(tier, seed):
    from ombott.request_pkg.helpers import FileUpload
    t0 = time.time()
    rng = random.Random(seed + 77)
    acc = Acc()
    ws = core.tla_workspace()
    r = core.run_tlc(ws, 'MC_Filename', 'MC_Filename.cfg', allow_violation=True)
    acc.add_tlc(r, 'exhaustive MC_Filename (Safe, Idempotent)')
    if not r.ok:
        raise core.MachineryError('MC_Filename: %s' % r.violated)

    def name_of(raw):
        try:
            return FileUpload(None, 'f', raw).filename
        except Exception as e:   # noqa
            return '<%s>' % type(e).__name__
    raws = [''.join(map(chr, t)) for n in range(0, 4) for t in itertools.product(ALPHA, repeat=n)]
    extra = 'abcXYZ019._- \t/\\:;*?"<>|\x00\r\n\x0b\xe9\xdf\u00bd\ufb01\uff0f\uff0e\u4e2d\U0001F600'
    for _ in range(4000 if tier == 'thorough' else 600):
        n = rng.choice([1, 5, 12, 40, 254, 255, 256, 300])
        raws.append(''.join(rng.choice(extra) for _ in range(n)))
    raws += ['..', '.', '...', '../../etc/passwd', '..\\..\\boot.ini', 'C:\\x\\y.txt', '-rf', '--', '.hidden', 'a/../b', ' . ', '\u2024\u2024/x', 'con.', 'a' * 300 + '.txt',
             '.' * 260, '/', '\\', 'x/', 'x\\', '\uff0e\uff0e\uff0fy']
    recs = []
    for raw in raws:
        got = name_of(raw)
        recs.append({'raw': [ord(c) for c in raw], 'got': [ord(c) for c in got], 'again': [ord(c) for c in name_of(got)],
                     'modelled': all(ord(c) < 128 or ord(c) in ALPHA or ord(c) == 65294 for c in raw)})
    missing, fails = core.validate_records(acc, 'FilenameTrace', recs, 'file names')
    out = {'name': 'filename', 'tier': tier, 'names_checked': len(recs), 'property_failures': [], 'model_mismatches': [],
           'states': acc.states, 'tlc_runs': acc.tlc}
    for i, cl in sorted(fails.items())[:10]:
        out['property_failures'].append({'raw': ''.join(map(chr, recs[i]['raw'])), 'got': ''.join(map(chr, recs[i]['got'])), 'clauses': sorted(cl)})
    for i in sorted(set(missing) - set(fails))[:10]:
        out['model_mismatches'].append({'raw': ''.join(map(chr, recs[i]['raw'])), 'got': ''.join(map(chr, recs[i]['got']))})
    out['wall_s'] = round(time.time() - t0, 1)
    if not os.environ.get('VERIF_NO_EVIDENCE'):
        os.makedirs(os.path.join(core.VERIF, 'extras'), exist_ok=True)
        json.dump(out, open(os.path.join(core.VERIF, 'extras', 'filename.json'), 'w'), indent=1)
    print('extra filename %s: states=%d names=%d property_failures=%d model_mismatches=%d wall=%.1fs'
          % (tier, acc.states, len(recs), len(fails), len(set(missing) - set(fails)), out['wall_s']))
    for m in (out['property_failures'] + out['model_mismatches'])[:4]:
        print('  ', json.dumps(m)[:300])
    return 3 if (fails or (set(missing) - set(fails))) else 0
