"""Beyond the listed properties: where a Request says it was asked -- script_name, path, fullpath (specs/UrlRecon.tla).

1. TLC, every PATH_INFO of <= 5 symbols over {a 1 / . : ? #} x 6 script names x X-Script-Name on/off:
   - holds: fullpath is the PEP 3333 reconstruction (script name, then the path as sent) EXCEPT for five named classes of
     request (a sixth and seventh, leading space and tab/newline, were found by step 2 and are outside the model alphabet) (OnlyKnownDeviations); the prefix the domain_map option puts before the path is invisible (MountInvisible);
   - does not hold (one witness each): Faithful, Rooted, and every class is a real deviation (W_*).
2. code: every PATH_INFO of <= 4 symbols and random longer ones go through a real Request; TLC compares script_name, path,
   fullpath with the transcription and judges UnknownDeviation / MountVisible on the real values.  A second batch puts
   arbitrary text into the application-name header, as a client can when domain_map does not claim the host."""
import itertools
import json
import os
import random
import time

from harness import core
from harness.extras.filename import Acc

ALPHA = [97, 49, 47, 46, 58, 63, 35]
SCRIPTS = ['', '/', 'a', '/a', '/a/1/', '//']
HEADER = 'HTTP_X_APP'


def run(tier, seed):
    from ombott.request_pkg.request import Request
    t0 = time.time()
    rng = random.Random(seed + 91)
    acc = Acc()
    results = {}

    def mc(cfg, expect_ok):
        ws = core.tla_workspace()
        r = core.run_tlc(ws, 'MC_UrlRecon', cfg, allow_violation=True, workers=8)
        acc.add_tlc(r, cfg)
        results[cfg] = 'holds' if r.ok else 'violated: %s' % r.violated
        if r.ok != expect_ok:
            raise core.MachineryError('%s: expected %s, TLC says %s' % (cfg, 'to hold' if expect_ok else 'a witness', results[cfg]))
    jobs = [(lambda: mc('MC_UrlRecon_holds.cfg', True))]
    for w in ('Faithful', 'Rooted', 'W_scheme', 'W_dot', 'W_empty', 'W_mark', 'W_script'):
        jobs.append(lambda w=w: mc('MC_UrlRecon_%s.cfg' % w, False))
    core.parallel(jobs, max_workers=4)

    def real(sn, xsn, allow, pi, app=None):
        env = {'REQUEST_METHOD': 'GET', 'SCRIPT_NAME': sn, 'PATH_INFO': pi, 'HTTP_HOST': 'h.example', 'wsgi.url_scheme': 'http'}
        if xsn:
            env['HTTP_X_SCRIPT_NAME'] = xsn
        if app is not None:
            env[HEADER] = app
        rq = Request(env, config={'allow_x_script_name': allow, 'app_name_header': HEADER})
        try:
            return [rq.script_name, rq.path, rq.fullpath]
        except Exception as e:   # noqa
            return ['<%s>' % type(e).__name__] * 3

    def L(s):
        return [ord(c) for c in s]
    recs = []

    def record(sn, xsn, allow, pi, app=None, mount=False):
        got = real(sn, xsn, allow, pi, app)
        mounted = []
        if mount:
            mounted = [L(real(sn, xsn, allow, '/t' + pi, '/t')[2])]
        text = sn + xsn + pi + (app or '')
        recs.append({'sn': L(sn), 'xsn': L(xsn), 'allow': bool(allow), 'pi': L(pi), 'app': L(app if app is not None else '/'),
                     'script': L(got[0]), 'path': L(got[1]), 'full': L(got[2]), 'mounted': mounted,
                     'modelled': all(ord(c) in ALPHA or c.isalnum() and c.isascii() or c in '-_~' for c in text)})
    pis = [''.join(map(chr, t)) for n in range(0, 5) for t in itertools.product(ALPHA, repeat=n)]
    for pi in pis:
        record(rng.choice(SCRIPTS), rng.choice(['', '/1']), rng.random() < 0.5, pi, mount=True)
    extra = 'ab1/.:?#-_~%+ @=&\xe9\t'
    for _ in range(6000 if tier == 'thorough' else 1200):
        pi = ''.join(rng.choice(extra) for _ in range(rng.choice([3, 6, 10, 25])))
        record(rng.choice(SCRIPTS + ['/x/y', 'x/']), rng.choice(['', '/1', 'p/q/']), rng.random() < 0.5, pi, mount=True)
    # the application-name header as a client may send it (domain_map does not claim the host, or is not configured)
    for _ in range(3000 if tier == 'thorough' else 600):
        pi = '/' + ''.join(rng.choice('ab1/.:') for _ in range(rng.choice([2, 5, 9])))
        record(rng.choice(SCRIPTS), '', False, pi, app=rng.choice(['/', '/a', 'zz', '/' + 'q' * rng.randint(0, 12), pi[:rng.randint(0, len(pi))]]))
    missing, fails = core.validate_records(acc, 'UrlReconTrace', recs, 'requests')

    def S(l):
        return ''.join(map(chr, l))
    spoof = [r for r in recs if r['app'] != L('/') and not S(r['path']).startswith(S(r['app']))]
    out = {'name': 'urlrecon', 'tier': tier, 'model': results, 'requests_checked': len(recs),
           'property_failures': [], 'model_mismatches': [], 'states': acc.states, 'tlc_runs': acc.tlc,
           'observation_client_header': {
               'what': 'fullpath drops len(header value) characters of the path without looking at them: with the application-name '
                       'header under client control the reported fullpath/url is the path minus a prefix of the client\'s choosing',
               'requests_with_a_header_that_is_no_prefix_of_the_path': len(spoof),
               'examples': [{'PATH_INFO': S(r['pi']), 'header': S(r['app']), 'fullpath': S(r['full'])} for r in spoof[:4]]}}
    for i, cl in sorted(fails.items())[:10]:
        out['property_failures'].append({'rec': {k: (S(v) if isinstance(v, list) and k != 'mounted' else v) for k, v in recs[i].items()}, 'clauses': sorted(cl)})
    for i in sorted(set(missing) - set(fails))[:10]:
        out['model_mismatches'].append({k: (S(v) if isinstance(v, list) and k != 'mounted' else v) for k, v in recs[i].items()})
    out['wall_s'] = round(time.time() - t0, 1)
    if not os.environ.get('VERIF_NO_EVIDENCE'):
        os.makedirs(os.path.join(core.VERIF, 'extras'), exist_ok=True)
        json.dump(out, open(os.path.join(core.VERIF, 'extras', 'urlrecon.json'), 'w'), indent=1)
    print('extra urlrecon %s: states=%d requests=%d property_failures=%d model_mismatches=%d wall=%.1fs'
          % (tier, acc.states, len(recs), len(fails), len(set(missing) - set(fails)), out['wall_s']))
    for m in (out['property_failures'] + out['model_mismatches'])[:6]:
        print('  ', json.dumps(m)[:400])
    return 3 if (fails or (set(missing) - set(fails))) else 0
