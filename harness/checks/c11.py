from harness.checks import routerchecks


def run(chk):
    routerchecks.run(chk, 'C11')


def replay(path):
    return routerchecks.replay(path, 'C11')
