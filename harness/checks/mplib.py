"""Driving / projecting the real multipart scanner and an independent multipart encoder."""
import json
import os

from harness import core


def opt(b):
    return ["None"] if b is None else ["S", list(b)]


def proj(m):
    """Projection of the live MultipartMarkup onto the variables of specs/Multipart.tla."""
    try:
        return _proj(m)
    except (AttributeError, TypeError, KeyError):
        # the private carry state is laid out differently: the step cannot be compared with the mechanism model (DRIFT),
        # the property-level clauses (division independence, reference ranges) do not depend on it
        return {'unprojectable': 1}


def _proj(m):
    k = m._markuper
    he = k.headers_eater
    cur = {k._eat_start_boundary: 'start', k._eat_data: 'data', k._eat_headers: 'headers'}.get(k.cur_meth, '?')
    em = {he._eat_first_crlf_or_last_hyphens: 'first', he._eat_last_hyphen: 'lasthy', he._eat_lf: 'lf',
          he._eat_headers: 'headers', None: 'null'}.get(he.eat_meth, '?')
    return {'markups': [[n, s, e] for n, (s, e) in m.markups],
            'error': '' if m.error is None else type(m.error).__name__,
            'm': {'trest': opt(k.trest), 'stopped': bool(k.stopped), 'cur': cur, 'abspos': k.abspos,
                  'abss': k.abs_start_section,
                  'he': {'hee': opt(he.headers_end_expected), 'em': em, 'stopped': bool(he.stopped)}}}


def result(m):
    return {'markups': [[n, s, e] for n, (s, e) in m.markups],
            'error': '' if m.error is None else type(m.error).__name__}


def run_split(boundary, body, ks, kind='other', between=None):
    """between = (other_boundary, other_body): after every read of this body another body (another request on the same
    server) is parsed from start to end by a parser of its own; this body's result must not notice."""
    from ombott.request_pkg.multipart import MultipartMarkup
    m = MultipartMarkup(bytes(boundary))
    pos = 0
    log = []
    for k in ks:
        m.parse(body[pos:pos + k])
        pos += k
        log.append({'k': k, 'mm': proj(m)})
        if between is not None:
            other = MultipartMarkup(bytes(between[0]))
            half = len(between[1]) // 2
            other.parse(between[1][:half])
            other.parse(between[1][half:])
    one = MultipartMarkup(bytes(boundary))
    if body:
        one.parse(body)
    return {'boundary': list(boundary), 'body': list(body), 'log': log, 'final': result(m), 'oneshot': result(one),
            'kind': kind}


def validate(chk, traces, what, clauses=('SplitIndep', 'RefRanges')):
    """Group by boundary; one TLC run per boundary."""
    groups = {}
    for t in traces:
        groups.setdefault(tuple(t['boundary']), []).append(t)
    def one(bnd, grp):
        ws = core.tla_workspace()
        with open(os.path.join(ws, 'MPT.tla'), 'w') as fh:
            fh.write('---- MODULE MPT ----\nEXTENDS MultipartTrace\nTraceBoundary == %s\n====\n' % core.to_tla(list(bnd)))
        with open(os.path.join(ws, 'MPT.cfg'), 'w') as fh:
            fh.write(open(os.path.join(core.SPECS, 'MultipartTrace.cfg.tmpl')).read())
        path = os.path.join(ws, 'traces.json')
        with open(path, 'w') as fh:
            json.dump(grp, fh)
        r = core.run_tlc(ws, 'MPT', 'MPT.cfg', workers=1, env={'TRACE_FILE': path}, timeout=3600)
        return bnd, grp, r
    results = core.parallel([(lambda b=b, g=g: one(b, g)) for b, g in groups.items()], max_workers=8)
    for bnd, grp, r in results:
        chk.add_tlc(r, 'MultipartTrace %s boundary=%r (%d traces)' % (what, bytes(bnd)[:20], len(grp)))
        missing, fails = core.trace_report(r)
        if any('GeneratorNotWellFormed' in c for c in fails.values()):
            raise core.MachineryError('encoder produced a body the declarative reference does not accept')
        bad = set()
        for tid, cl in sorted(fails.items()):
            rel = cl & set(clauses)
            if rel:
                t = grp[tid - 1]
                bad.add(tid)
                chk.violation('%s: %s fails: boundary=%r body(%d bytes) cut into %s -> %s ; in one piece -> %s'
                              % (what, sorted(rel), bytes(bnd), len(t['body']), [s['k'] for s in t['log']][:12],
                                 summarize(t['final']), summarize(t['oneshot'])),
                              {'boundary_hex': bytes(bnd).hex(), 'body_hex': bytes(t['body']).hex(),
                               'ks': [s['k'] for s in t['log']], 'kind': t['kind'], 'clauses': sorted(rel),
                               'final_error': t['final']['error'], 'oneshot_error': t['oneshot']['error']})
        drift = [tid for tid in sorted(missing) if tid not in bad]
        if drift:
            t = grp[drift[0] - 1]
            chk.drift('%s: %d execution(s) whose carry state differs from the model (first: boundary=%r body=%r ks=%s)'
                      % (what, len(drift), bytes(bnd), bytes(t['body'])[:60], [s['k'] for s in t['log']][:12]))
        chk.traces_validated += len(grp) - len(missing | set(fails))


def summarize(res):
    return '%d sections, error=%s' % (len(res['markups']), res['error'] or 'None')


# ---- an independent RFC 7578 encoder (no code shared with ombott)
def encode_form(fields, boundary, epilogue=b'\r\n', ctype_case=None):
    """fields: list of dicts {name, value(str)} or {name, filename, ctype, data(bytes)}.
    Returns body bytes."""
    out = bytearray()
    for f in fields:
        out += b'--' + boundary + b'\r\n'
        disp = 'Content-Disposition: form-data; name="%s"' % f['name']
        if 'filename' in f:
            disp += '; filename="%s"' % f['filename']
        out += disp.encode('utf8') + b'\r\n'
        if f.get('ctype'):
            out += ('Content-Type: %s' % f['ctype']).encode('utf8') + b'\r\n'
        out += b'\r\n'
        out += f['data'] if 'filename' in f else f['value'].encode('utf8')
        out += b'\r\n'
    out += b'--' + boundary + b'--' + epilogue
    return bytes(out)


def nasty_bytes(rng, n, boundary):
    """Binary data rich in CR, LF, dashes and partial boundary look-alikes, never containing the delimiter."""
    tok = b'\r\n--' + boundary
    pieces = [b'\r', b'\n', b'-', b'--', b'\r\n', b'\r\n-', b'\r\n--', b'\r\n\r\n', b'x', b'\x00', b'\xff', bytes([rng.randrange(256)])]
    for i in range(1, len(tok)):
        pieces.append(tok[:i])
    if len(boundary) > 1:
        pieces.append(b'\r\n--' + boundary[:-1] + bytes([(boundary[-1] + 1) % 256 or 1]))
    out = bytearray()
    while len(out) < n:
        out += rng.choice(pieces)
    out = bytes(out[:n])
    while tok in out or (b'--' + boundary) == out[:len(boundary) + 2]:
        i = out.find(tok)
        if i < 0:
            out = b'x' + out[1:]
            continue
        out = out[:i + len(tok) - 1] + (b'y' if out[i + len(tok) - 1:i + len(tok)] != b'y' else b'z') + out[i + len(tok):]
    # data + CRLF + delimiter must not create an earlier delimiter occurrence
    if tok in (out + tok)[:len(out) + len(tok) - 1]:
        out = out[:-1] + b'q' if out else out
    return out


BCHARS = b"0123456789abcdefghijklmnopqrstuvwxyzABCDEFGHIJKLMNOPQRSTUVWXYZ'()+_,-./:=?"


def rand_boundary(rng):
    n = rng.choice([1, 1, 2, 3, 8, 16, 30, 40, 70])
    b = bytes(rng.choice(BCHARS) for _ in range(n))
    return b
