"""C19: building a URL from matched parameters leads back to the same match. See specs/Url.tla."""
import json
import random

from harness import core
from harness.checks import routerlib as rl
from harness.checks.routerchecks import rand_universe

TOKEN = rl.TOKEN


_routers = {}
_last = {}


class ReInt(int):
    hook = None

    def __int__(self):
        if self.hook:
            h, self.hook = self.hook, None
            h()
        return int.__int__(self)


class ReFloat(float):
    hook = None

    def __float__(self):
        if self.hook:
            h, self.hook = self.hook, None
            h()
        return float.__float__(self)


def record(rng, r, path, flavour):
    """Register the single rule on a fresh router, match `path`, build the URL from the delivered values, resolve it again."""
    from ombott.router.radirouter import RadiRouter
    text = rl.render(r['pat'], r['filters'], r['names'], rng, flavour)
    # one router per rule text, reused for every path: a Route object builds many URLs in its life
    if text not in _routers:
        _routers[text] = RadiRouter()
        _routers[text].add(text, 'GET', lambda **kw: None)
    router = _routers[text]
    path = rl.s2l(rl.l2s(path).strip('/'))       # as RadiRouter.resolve does before the lookup
    got = router.radidict.get(rl.l2s(path))
    if not got:
        return None
    route, extra = got
    keys, vals = list(extra['param_keys']), list(extra['param_values'])
    if keys and not any(k.startswith('anon-') for k in keys) and path:
        # the values as a request delivers them: through RadiRouter.resolve, which first normalises the outer slashes
        # (a request path may carry several)
        asked = rng.choice(['/', '//', '']) + rl.l2s(path) + rng.choice(['', '/', '//', '///'])
        ep, _err = router.resolve(asked, ['GET'])
        if ep is not None and all(k in ep[1] for k in keys):
            vals = [ep[1][k] for k in keys]
    # a Route object serves every thread of the process: while one URL is being built another one is (here: deterministically,
    # from inside the conversion of one of the values -- a number that, asked for its value, first builds the previous URL of
    # this rule again, start to end, as another thread would between two steps of this call)
    prev = _last.get(text)
    _last[text] = ([v for k, v in zip(keys, vals) if k.startswith('anon-')], {k: v for k, v in zip(keys, vals) if not k.startswith('anon-')})
    if prev is not None and flavour % 3 == 0:
        for i in range(1, len(vals)):
            v = vals[i]
            if isinstance(v, bool) or not isinstance(v, (int, float)):
                continue

            def other(prev=prev):
                try:
                    route.url(*prev[0], **prev[1])
                except Exception:   # noqa
                    pass
            vals = list(vals)
            vals[i] = (ReInt if isinstance(v, int) else ReFloat)(v)
            vals[i].hook = other
            break
    args = [v for k, v in zip(keys, vals) if k.startswith('anon-')]
    kw = {k: v for k, v in zip(keys, vals) if not k.startswith('anon-')}
    rec = {'pat': r['pat'], 'filters': r['filters'], 'path': path, 'vals': [rl.val_text(v) for v in vals], 'url': [], 'exc': '',
           're': {'found': False, 'same': False, 'vals': []}, 'rule': text,
           # raw: the text each wildcard consumed in the path, where it can be told (for the mechanism model)
           'raw': [], 'simple': False}
    try:
        url = route.url(*args, **kw)
    except Exception as e:   # noqa
        rec['exc'] = type(e).__name__
        return rec
    rec['url'] = rl.s2l(url)
    got2 = router.radidict.get(url.strip('/'))
    if got2:
        route2, extra2 = got2
        vals2 = list(extra2['param_values'])
        if keys and not any(k.startswith('anon-') for k in keys):
            ep2, _err = router.resolve(url, ['GET'])
            if ep2 is not None and all(k in ep2[1] for k in keys):
                vals2 = [ep2[1][k] for k in keys]
        rec['re'] = {'found': True, 'same': route2 is route, 'vals': [rl.val_text(v) for v in vals2]}
    # the mechanism model needs the raw consumed texts: recover them by the reference-free trick of matching the built URL's pieces is
    # not possible in general; they are known when every value is a str (no conversion)
    if all(isinstance(v, str) for v in vals):
        rec['raw'] = [rl.s2l(v) for v in vals]
        rec['simple'] = True
    return rec


def paths_for(rng, r, n):
    ints = ['0', '7', '-0', '007', '-12', '123456789', '00', '-007', '9007199254740993', '-18446744073709551617', '123456789012345678901234567890']
    floats = ['1.5', '2', '0.00001', '-0.0', '1.50', '100000000000000000000000', '0.000000001', '12345.678', '-3.25', '00.10', '1e5']
    words = ['a', 'b', 'tom', 'to/', 'x-y', 'é', 'a b', '', 'end', 'e', 'wiki', 'to.']
    out = []
    for _ in range(n):
        p = []
        ti = 0
        for c in r['pat']:
            if c != TOKEN:
                p.append(c)
                continue
            f = r['filters'][ti]
            ti += 1
            if f == 'int(None)':
                v = rng.choice(ints)
            elif f == 'float(None)':
                v = rng.choice(floats)
            elif f.startswith('path'):
                v = '/'.join(rng.choice(words) or 'z' for _ in range(rng.randint(1, 3)))
            elif f == 're(to.)':
                v = rng.choice(['tom', 'to.', 'tox', 'to/'])
            elif f == 're([a-z]+)':
                v = rng.choice(['a', 'abc', 'wiki', 'z'])
            else:
                v = rng.choice(words)
            p += rl.s2l(v)
        out.append(p)
    # the same Route building URLs for values whose hashes coincide in CPython (hash(-1) == hash(-2)), one after the other
    if any(f in ('int(None)', 'float(None)') for f in r['filters']):
        for v in ('-1', '-2', '-1'):
            p = []
            ti = 0
            for c in r['pat']:
                if c != TOKEN:
                    p.append(c)
                    continue
                f = r['filters'][ti]
                ti += 1
                p += rl.s2l(v if f == 'int(None)' else v + '.0' if f == 'float(None)' else 'tom' if f == 're(to.)' else 'ab')
            out.append(p)
    return out


def run(chk):
    rng = random.Random(chk.seed * 37 + 19)
    thorough = chk.tier == 'thorough'
    ws = core.tla_workspace()
    with open(ws + '/MC_Url_q.cfg', 'w') as fh:
        fh.write(open(core.SPECS + '/MC_Url.cfg').read().replace('ProbeLen = 5', 'ProbeLen = 4'))
    r = core.run_tlc(ws, 'MC_Url', 'MC_Url.cfg' if thorough else 'MC_Url_q.cfg', allow_violation=True, timeout=3000)
    chk.add_tlc(r, 'exhaustive MC_Url (11 rules x all probe paths)')
    if not r.ok:
        raise core.MachineryError('model-level: %s\n%s' % (r.violated, r.out[-1500:]))
    chk.exhaustive = True
    fixed = [
        {'pat': rl.s2l('a/') + [TOKEN], 'filters': ['None'], 'names': ['x']},
        {'pat': rl.s2l('p/') + [TOKEN] + rl.s2l('/end'), 'filters': ['path(/end)'], 'names': ['pth']},
        {'pat': rl.s2l('p1/') + [TOKEN] + rl.s2l('end'), 'filters': ['path(end)'], 'names': ['pth']},
        {'pat': rl.s2l('p/') + [TOKEN], 'filters': ['path()'], 'names': ['']},
        {'pat': [TOKEN] + rl.s2l('/') + [TOKEN], 'filters': ['int(None)', 'float(None)'], 'names': ['n', 'f']},
        {'pat': [TOKEN, TOKEN], 'filters': ['int(None)', 'None'], 'names': ['', 'rest']},
        {'pat': rl.s2l('a') + [TOKEN] + rl.s2l('b'), 'filters': ['re([a-z]+)'], 'names': ['w']},
        {'pat': rl.s2l('re/') + [TOKEN] + rl.s2l('/bar'), 'filters': ['re(to.)'], 'names': ['']},
        {'pat': rl.s2l('f/') + [TOKEN] + rl.s2l('x') + [TOKEN], 'filters': ['float(None)', 'int(None)'], 'names': ['a', 'b']},
        {'pat': rl.s2l('static/only'), 'filters': [], 'names': []},
        # a literal that starts with a digit directly after a wildcard
        {'pat': rl.s2l('img/') + [TOKEN] + rl.s2l('2x.png'), 'filters': ['re([a-z]+)'], 'names': ['name']},
        {'pat': [TOKEN] + rl.s2l('4') + [TOKEN], 'filters': ['re([a-z]+)', 'None'], 'names': ['lang', 'topic']},
        {'pat': rl.s2l('v/') + [TOKEN] + rl.s2l('1/') + [TOKEN] + rl.s2l('007'), 'filters': ['None', 're([a-z]+)'], 'names': ['a', '']},
        # literal text with characters that mean something to str.format / to the rule syntax's closing side
        {'pat': rl.s2l('tpl/a}b/') + [TOKEN], 'filters': ['None'], 'names': ['x']},
        {'pat': rl.s2l('obj}/') + [TOKEN], 'filters': ['int(None)'], 'names': ['id']},
        {'pat': rl.s2l('m/}}/') + [TOKEN] + rl.s2l('/end'), 'filters': ['float(None)'], 'names': ['x']},
        {'pat': rl.s2l('d/') + [TOKEN] + rl.s2l('}/z>'), 'filters': ['path(}/z>)'], 'names': ['p']},
        {'pat': rl.s2l('%s/{0}'.replace('{', '(').replace('}', ')') + '/') + [TOKEN] + rl.s2l('%d>)'), 'filters': ['None'], 'names': ['']},
        # directly adjacent wildcards followed by literal text
        {'pat': [TOKEN, TOKEN] + rl.s2l('/tail'), 'filters': ['int(None)', 'None'], 'names': ['a', 'b']},
        {'pat': rl.s2l('x/') + [TOKEN, TOKEN] + rl.s2l('-end/') + [TOKEN], 'filters': ['int(None)', 're([a-z]+)', 'None'], 'names': ['n', 'w', 'z']},
        {'pat': [TOKEN, TOKEN, TOKEN] + rl.s2l('.z'), 'filters': ['float(None)', 're([a-z]+)', 'int(None)'], 'names': ['f', '', 'i']},
        # wildcard names that are also words of Python or of the URL builder's own vocabulary: a name is just a name
        {'pat': rl.s2l('search/') + [TOKEN], 'filters': ['None'], 'names': ['query']},
        {'pat': rl.s2l('obj/') + [TOKEN] + rl.s2l('/of/') + [TOKEN], 'filters': ['int(None)', 'None'], 'names': ['self', 'cls']},
        {'pat': rl.s2l('call/') + [TOKEN] + rl.s2l('/') + [TOKEN], 'filters': ['None', 'path()'], 'names': ['args', 'kw']},
        {'pat': rl.s2l('r/') + [TOKEN] + rl.s2l('-') + [TOKEN], 'filters': ['re([a-z]+)', 'float(None)'], 'names': ['rule', 'name']},
        {'pat': rl.s2l('k/') + [TOKEN] + rl.s2l('/') + [TOKEN] + rl.s2l('/') + [TOKEN], 'filters': ['None', 'None', 'None'], 'names': ['anchor', 'params', 'route']},
        {'pat': rl.s2l('u/') + [TOKEN] + rl.s2l('/') + [TOKEN], 'filters': ['None', 'int(None)'], 'names': ['anon_user', '_']},
        # more than ten anonymous wildcards: positional values keep their positions
        {'pat': sum([[TOKEN, 47] for _ in range(12)], [])[:-1], 'filters': ['re([a-z]+)'] * 12, 'names': [''] * 12},
        {'pat': rl.s2l('m/') + sum([[TOKEN, 45] for _ in range(11)], []) + rl.s2l('end/') + [TOKEN], 'filters': ['int(None)'] * 11 + ['None'], 'names': [''] * 11 + ['last']},
    ]
    recs = []
    rules = fixed + rand_universe(rng, 200 if thorough else 40)
    for r_ in rules:
        # anonymous plain wildcards can only be written at the very end (see routerlib.render)
        try:
            rl.render(r_['pat'], r_['filters'], r_['names'], rng, 0)
        except ValueError:
            continue
        for path in paths_for(rng, r_, 40 if thorough else 14):
            rec = record(rng, r_, path, rng.randrange(12))
            if rec is None:
                continue
            recs.append(rec)
            chk.count(1, ('url', rec['rule'], rl.l2s(path)))
    chk.sample({'rule': recs[0]['rule'], 'path': rl.l2s(recs[0]['path']), 'url': rl.l2s(recs[0]['url']), 'rematch': recs[0]['re']['same']})
    chk.sample({'rule': recs[-1]['rule'], 'path': rl.l2s(recs[-1]['path']), 'url': rl.l2s(recs[-1]['url']), 'rematch': recs[-1]['re']['same']})
    missing, fails = core.validate_records(chk, 'UrlTrace', recs, 'C19', strip=lambda t: {k: v for k, v in t.items() if k != 'rule'})
    for i, cl in sorted(fails.items()):
        t = recs[i]
        chk.violation('C19: %s fails: rule %r matched %r with values %s; url() -> %s%s; resolving it: %s'
                      % (sorted(cl), t['rule'], rl.l2s(t['path']), [''.join(map(chr, v[1])) for v in t['vals']],
                         repr(rl.l2s(t['url'])) if not t['exc'] else '', t['exc'], {k: (v if k != 'vals' else [''.join(map(chr, x[1])) for x in v]) for k, v in t['re'].items()}),
                      {'rule': t['rule'], 'path': t['path'], 'clauses': sorted(cl), 'exc': t['exc'], 'filters': t['filters']})
    edge_values(chk)
    drift = sorted(set(missing) - set(fails))
    if drift:
        t = recs[drift[0]]
        chk.drift('C19: %d URLs differ from the transcription (first: rule %r path %r -> %r)' % (len(drift), t['rule'], rl.l2s(t['path']), rl.l2s(t['url'])))
    chk.extra['assumptions'] = ['parameter assignments are those the real router delivers for generated paths (converted ints/floats)',
                                'rex selectors are out of scope']
    chk.extra['rule'] = 'fixed rules covering every filter family (path with following literal, adjacent wildcards, anonymous wildcards) and random rules x generated matching paths (ints with sign/leading zeros, floats incl. very small/large, multi-segment path values)'


def edge_values(chk):
    """Parameter assignments at the edges of a filter's language: an expression that also matches the empty text, numbers
    beyond the range of a float.  Judged in the harness (same clauses: the URL is built, resolves to the same route with the
    same values); the filters are outside the transcribed set."""
    from ombott.router.radirouter import RadiRouter
    cases = [('/img/{name:re((thumb|full)_[0-9]+)}.png', '/img/thumb_12.png'), ('/v/<ver:re(v([0-9]+)(\\.[0-9]+)?)>/doc', '/v/v2.10/doc'),
             ('/k/<a:re((a|b)+)>-<b:re(x(y)?)>', '/k/abba-x'), ('/a/{x:re([a-z]*)}/b', '/a//b'), ('/a/{x:re([a-z]*)}/b', '/a/q/b'), ('/e/<x:re(\\d*)>x', '/e/x'), ('/e/<x:re(\\d*)>x', '/e/12x'),
             ('/o/<v:re((?:on)?)>/<w>', '/o//k'), ('/f/{x:float}', '/f/' + '9' * 400), ('/f/{x:float}', '/f/-' + '9' * 400 + '.5'),
             ('/f/{x:float}/t', '/f/1' + '0' * 308 + '/t'), ('/f/{x:float}', '/f/' + '1' + '0' * 307)]
    for rule, path in cases:
        router = RadiRouter()
        router.add(rule, 'GET', lambda **kw: None)
        ep, _err = router.resolve(path, ['GET'])
        chk.count(1, ('edge', rule, path[:40]))
        if ep is None:
            continue          # (whether the rule matches this path is C01's business)
        meth, params, _hooks = ep
        why, url = None, None
        try:
            url = meth.route.url(**params)
        except Exception as e:   # noqa
            why = 'UrlBuilt'
            url = type(e).__name__
        if why is None:
            ep2, _e2 = router.resolve(url, ['GET'])
            if ep2 is None or ep2[0].route is not meth.route:
                why = 'Rematch'
            elif ep2[1] != params:
                why = 'SameValues'
        if why:
            vals = {k: (repr(v) if not isinstance(v, str) else v) for k, v in params.items()}
            chk.violation('C19: [%r] fails: rule %r matched %r with values %s; url() -> %s'
                          % (why, rule, path[:60] + ('...' if len(path) > 60 else ''), vals, url),
                          {'rule': rule, 'path': path, 'clauses': [why], 'edge': True,
                           'value_is_infinite_float': any(isinstance(v, float) and v in (float('inf'), float('-inf')) for v in params.values())})


def replay(path):
    print(json.dumps(json.load(open(path))['case'], indent=1))
    return 1
