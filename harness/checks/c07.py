"""C07: multipart forms and uploads round-trip exactly. See specs/Fields.tla."""
import json
import random

from harness import core
from harness.checks import formlib as fl, mplib

NAME_CPS = [97, 98, 59, 61, 32, 92, 233, 0x4E2D, 0x1F600, 46, 45, 47, 58, 44, 39, 40,
            # text that is not in a Unicode normal form (decomposed accent, conjoining jamo, singleton mappings): kept as sent
            0x301, 0x1100, 0x1161, 0x212B, 0x2126]


def rand_name(rng):
    return ''.join(chr(rng.choice(NAME_CPS)) for _ in range(rng.randint(1, 6)))


def gen_fields(rng, boundary, nmax=5):
    n = rng.choice([0, 1, 1, 2, 3, nmax])
    names = [rand_name(rng) for _ in range(max(1, n // 2 + 1))]
    if rng.random() < 0.12:
        names[0] = ''          # the empty name is a name like any other (no quote, no line break in it)
    kinds = None
    if rng.random() < 0.1:
        # one name carried by several text parts AND several uploads, in any order
        n = rng.choice([4, 5])
        names = names[:1]
        kinds = [True, True, False, False, rng.random() < 0.5][:n]
        rng.shuffle(kinds)
    fs = []
    for _i in range(n):
        name = rng.choice(names)
        if (kinds[_i] if kinds else rng.random() < 0.5):
            data = mplib.nasty_bytes(rng, rng.choice([0, 1, 3, 20, 200]), boundary)
            f = {'name': name, 'filename': rand_name(rng), 'data': data}
            if rng.random() < 0.7:
                f['ctype'] = rng.choice(['text/plain', 'application/octet-stream', 'image/png'])
            fs.append(f)
        else:
            k = rng.choice([0, 1, 4, 30])
            val = ''.join(chr(rng.choice([120, 13, 10, 45, 233, 0x20AC, 32, 61, 59, 34, 0xFEFF])) for _ in range(k))
            if k and rng.random() < 0.1:
                val = '\ufeff' + val[1:]     # a value that begins with U+FEFF begins with U+FEFF
            if (b'\r\n--' + boundary) in ('\r\n' + val + '\r\n--').encode('utf8')[:-4]:
                val = 'v'
            fs.append({'name': name, 'value': val})
    return fs


def quote_boundary(rng, b):
    """The boundary parameter as a client writes it: quoted when RFC 2045 requires, sometimes quoted anyway."""
    s = b.decode('ascii')
    tspecials = set('()<>@,;:\\"/[]?= ')
    if any(c in tspecials for c in s) or rng.random() < 0.2:
        return '"%s"' % s
    return s


def run(chk):
    rng = random.Random(chk.seed * 19 + 7)
    thorough = chk.tier == 'thorough'

    def mc(cfg):
        def job():
            ws = core.tla_workspace()
            r = core.run_tlc(ws, 'MC_Fields', cfg, allow_violation=True, workers=6)
            chk.add_tlc(r, 'exhaustive ' + cfg)
            if not r.ok:
                raise core.MachineryError('model-level: %s\n%s' % (r.violated, r.out[-1500:]))
        return job
    core.parallel([mc('MC_Fields.cfg')] + ([mc('MC_Fields_ab.cfg')] if thorough else []))
    chk.exhaustive = True
    by_b = {}
    boundaries = [b'B', b'a=b', b'x y', b"----WebKitFormBoundary7MA4YWxkTrZu0gW", mplib.rand_boundary(rng), mplib.rand_boundary(rng)]
    specs, metas = [], []
    for _ in range(6000 if thorough else 700):
        b = rng.choice(boundaries)
        if b.endswith(b' '):
            b = b + b'x'
        fs = gen_fields(rng, b)
        body = mplib.encode_form(fs, b, epilogue=rng.choice([b'', b'\r\n']))
        buf = rng.choice([64, 100, 1000, 100 * 1024, len(body), max(1, len(body) - 1), 7])
        # a text field larger than the in-memory threshold is refused by design (C13): keep text within it here
        text = sum(len(f['value'].encode('utf8')) + 120 for f in fs if 'value' in f) + sum(150 for f in fs if 'filename' in f)
        if text > buf:
            buf = max(buf, text + 200)
        ctype = 'multipart/form-data; boundary=' + quote_boundary(rng, b)
        if rng.random() < 0.15:
            ctype = ctype.replace('multipart/form-data', rng.choice(['Multipart/Form-Data', 'MULTIPART/FORM-DATA']))
        if rng.random() < 0.15:
            ctype += '; charset=utf-8'
        if len(specs) % 9 == 4:
            # an upload that breaks off inside a part-header block (client abort) is served in between; it is not judged here,
            # the well-formed forms after it are
            hb = body.find(b'\r\n\r\n')
            if hb > 0:
                cutpos = hb + rng.choice([1, 2, 3])
                specs.append({'buf': max(buf, cutpos), 'body': body[:cutpos], 'ctype': ctype, 'what': 'forms+files', 'chunked': False,
                              'seed': rng.randrange(10 ** 9), 'in_thread': False})
                metas.append(None)
        specs.append({'buf': buf, 'body': body, 'ctype': ctype, 'what': 'forms+files', 'chunked': rng.random() < 0.4, 'seed': rng.randrange(10 ** 9),
                      'in_thread': rng.random() < 0.2})
        metas.append((b, fs, body, buf, ctype))
    # uploads far larger than the in-memory threshold, followed by further parts: file content is spooled, never counted
    # against the budget of the text fields after it
    for i in range(300 if thorough else 40):
        b = rng.choice(boundaries[:3])
        fs = []
        for j in range(rng.randint(2, 5)):
            if j % 2 == 0:
                fs.append({'name': 'up%d' % j, 'filename': 'big%d.bin' % j, 'ctype': 'application/octet-stream',
                           'data': mplib.nasty_bytes(rng, rng.choice([800, 1500, 3000, 6000]), b)})
            else:
                fs.append({'name': 'note%d' % j, 'value': 'after the upload %d' % i})
        body = mplib.encode_form(fs, b)
        buf = rng.choice([600, 700, 900])
        ctype = 'multipart/form-data; boundary=' + quote_boundary(rng, b)
        specs.append({'buf': buf, 'body': body, 'ctype': ctype, 'what': 'forms+files', 'chunked': rng.random() < 0.4, 'seed': rng.randrange(10 ** 9),
                      'in_thread': False})
        metas.append((b, fs, body, buf, ctype))
    # long text values (tens of kilobytes, still within the in-memory threshold) made of multi-byte characters at every
    # alignment: however the value is taken out of the body, it is decoded as ONE text
    lspecs, lmetas = [], []
    for i in range(40 if thorough else 8):
        b = rng.choice(boundaries[:3])
        unit = rng.choice(['\u00e9', '\u20ac', '\U0001F600', 'a\u00e9\u20ac'])
        nbytes = rng.choice([16384, 32768, 65536, 20000]) + rng.randint(0, 40)
        val = 'x' * (i % 4) + unit * (nbytes // len(unit.encode('utf8')))
        fs = [{'name': 'note', 'value': 'short'}, {'name': 'essay', 'value': val}, {'name': 'tail', 'value': '\u00e9nd'}]
        body = mplib.encode_form(fs, b)
        buf = len(body) + 1000
        ctype = 'multipart/form-data; boundary=' + quote_boundary(rng, b)
        lspecs.append({'buf': buf, 'body': body, 'ctype': ctype, 'what': 'forms+files', 'chunked': rng.random() < 0.4, 'seed': rng.randrange(10 ** 9),
                       'in_thread': False})
        lmetas.append((b, fs, body, buf, ctype))
    # (values of this size are compared in the harness: the same RoundTrip clause, stated as plain equality of what was submitted
    #  and what request.forms holds -- tens of thousands of code points per value are too much for TLC's sequences)
    for (b, fs, body, buf, ctype), res in zip(lmetas, fl.post_batch(lspecs, time_limit=20.0)):
        want = [[f['name'], [f['value']]] for f in fs]
        got = [[k, list(vs)] for k, vs in res.get('forms', [])]
        chk.count(1, ('long-text', b, len(body)))
        if res['status'] != 200 or res['escaped'] or res['hang'] or sorted(got) != sorted(want) or res.get('files'):
            chk.violation('C07: [\'RoundTrip\'] fails: a form with a text value of %d bytes of multi-byte characters (max_memfile_size %d) -> status %s, '
                          'forms %s' % (len(fs[1]['value'].encode('utf8')), buf, res['status'], [[k, [len(v) for v in vs]] for k, vs in got]),
                          {'boundary_hex': b.hex(), 'body_hex': body.hex(), 'ctype': ctype, 'buf': buf, 'clauses': ['RoundTrip'], 'long_text': True})
    for meta, res in zip(metas, fl.post_batch(specs, time_limit=10.0)):
        if meta is None:
            continue
        b, fs, body, buf, ctype = meta
        t = fl.to_trace(body, buf, 'roundtrip', fs, res, full=not res['hang'])
        by_b.setdefault(b, []).append((t, {'ctype': ctype, 'buf': buf, 'fields': fs}))
        chk.count(1, ('rt', b, body, buf))
    t0 = next(iter(by_b.values()))[0]
    chk.sample({'boundary': next(iter(by_b)).decode('latin1'), 'submitted': [[f['name'], f.get('filename'), (f.get('value') if 'value' in f else len(f['data']))] for f in t0[1]['fields']],
                'status': t0[0]['status']})

    def describe(t, m, rel, bnd):
        chk.violation('C07: %s fails: fields %s posted with boundary %r (Content-Type %r, max_memfile_size %s) -> status %s forms %s files %s'
                      % (rel, [[f['name'], f.get('filename'), f.get('value', '<%d bytes>' % len(f.get('data', b'')))] for f in m['fields']], bnd, m['ctype'],
                         m['buf'], t['status'], [[''.join(map(chr, k)), [''.join(map(chr, v)) for v in vs]] for k, vs in t['forms']],
                         [[''.join(map(chr, k)), [''.join(map(chr, r[0])) for r in row]] for k, row in t['files']]),
                      {'boundary_hex': bnd.hex(), 'body_hex': bytes(t['body']).hex(), 'ctype': m['ctype'], 'buf': m['buf'], 'clauses': rel})
    fl.validate(chk, by_b, 'C07', {'RoundTrip'}, describe)
    upload_window(chk, rng, thorough)
    chk.extra['assumptions'] = ['names and file names are free of double quotes and line breaks; file names are non-empty',
                                'text fields fit the in-memory threshold (larger ones are refused by design, C13)',
                                'the part content type of an upload is read from its headers (Header object or string)']
    chk.extra['rule'] = 'field lists (0-5 parts, text/file interleaved, duplicate names, names with ; = space backslash and non-ASCII, adversarial data) x 6 boundaries (incl. quoted) x thresholds x Content-Length/chunked framing'


def upload_window(chk, rng, thorough):
    """The window object through which an upload is read (BytesIOProxy): TLC-explored call sequences and random ones are
    replayed on the real object; TLC judges every returned byte (specs/BytesProxy.tla, BytesProxyTrace.tla)."""
    import io
    from ombott.request_pkg.multipart import BytesIOProxy
    ws = core.tla_workspace()
    r = core.run_tlc(ws, 'BytesProxy', 'BytesProxy.cfg', allow_violation=True)
    chk.add_tlc(r, 'exhaustive BytesProxy (all call sequences <= 4 on every window of a 5-byte source)')
    if not r.ok:
        raise core.MachineryError('model-level BytesProxy: %s' % r.violated)
    r = core.run_tlc(ws, 'BytesProxyCover', 'BytesProxyCover.cfg', workers=1)
    chk.add_tlc(r, 'state cover BytesProxyCover')
    plans = [(w['st'], w['end'], 5, [(h['op'], h['a'], h['w']) for h in w['hist']]) for w in r.printed_json('W')]
    for _ in range(3000 if thorough else 500):
        n = rng.choice([0, 1, 7, 64, 200])
        st = rng.randint(0, n)
        end = rng.randint(st, n)
        ops = []
        for _i in range(rng.randint(1, 8)):
            if rng.random() < 0.5:
                ops.append(('seek', rng.randint(-5, n + 5), rng.choice([0, 0, 1, 2])))
            else:
                ops.append(('read', rng.choice([-1, 0, 1, 3, n + 3, rng.randint(1, max(1, n))]), 0))
        plans.append((st, end, n, ops))
    recs = []

    def call(px, op, a, w):
        # an exception out of the window object is an observation (reported position -999: clause TellInRange), not a harness failure
        try:
            if op == 'seek':
                return {'op': 'seek', 'a': a, 'w': w, 'tell': px.seek(a, w), 'data': []}
            d = px.read(None if a < 0 else a)
            return {'op': 'read', 'a': a, 'w': 0, 'tell': px.tell(), 'data': list(d)}
        except Exception:   # noqa
            return {'op': op, 'a': a, 'w': w if op == 'seek' else 0, 'tell': -999, 'data': []}
    for st, end, n, ops in plans:
        src = io.BytesIO(bytes((i + 1) % 256 for i in range(n)))
        px = BytesIOProxy(src, st, end)
        recs.append({'st': st, 'end': end, 'ops': [call(px, *o) for o in ops]})
        chk.count(1, ('window', st, end, n, tuple(ops)))
    # all uploads of a request (and request.body) are windows over ONE shared stream: interleave the calls of two windows
    # and touch the shared stream in between; each window's own call sequence must still satisfy the window model
    for i in range(0, len(plans) - 1, 2):
        (st1, end1, n1, ops1), (st2, end2, n2, ops2) = plans[i], plans[i + 1]
        n = max(n1, n2)
        src = io.BytesIO(bytes((j + 1) % 256 for j in range(n)))
        p1, p2 = BytesIOProxy(src, st1, end1), BytesIOProxy(src, st2, end2)
        o1, o2 = [], []
        q1, q2 = list(ops1), list(ops2)
        while q1 or q2:
            r_ = rng.random()
            if q1 and (r_ < 0.45 or not q2):
                o1.append(call(p1, *q1.pop(0)))
            elif q2:
                o2.append(call(p2, *q2.pop(0)))
            if rng.random() < 0.2:
                src.seek(rng.randint(0, n))
                src.read(rng.randint(0, 3))
        recs.append({'st': st1, 'end': end1, 'ops': o1})
        recs.append({'st': st2, 'end': end2, 'ops': o2})
        chk.count(1, ('window-interleaved', st1, end1, st2, end2, n))
    # bytes are i mod 256: keep windows below 255 so that byte value = index
    recs = [t for t in recs if t['end'] < 255]
    missing, fails = core.validate_records(chk, 'BytesProxyTrace', recs, 'upload window')
    for i, cl in sorted(fails.items()):
        t = recs[i]
        chk.violation('C07: %s fails on the upload window [%d,%d): calls %s' % (sorted(cl), t['st'], t['end'], [(o['op'], o['a'], o['w'], o['tell'], o['data'][:8]) for o in t['ops']]),
                      {'window': [t['st'], t['end']], 'ops': t['ops'], 'clauses': sorted(cl), 'body_hex': '', 'ctype': '', 'buf': 0, 'boundary_hex': ''})
    drift = sorted(set(missing) - set(fails))
    if drift:
        t = recs[drift[0]]
        chk.drift('C07: %d call sequences on BytesIOProxy differ from the model (first: window [%d,%d) %s)' % (len(drift), t['st'], t['end'], t['ops'][:4]))


def replay(path):
    case = json.load(open(path))['case']
    res = fl.post(case['buf'], bytes.fromhex(case['body_hex']), case['ctype'])
    print(json.dumps(res)[:3000])
    return 1
