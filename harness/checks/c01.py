from harness.checks import routerchecks


def run(chk):
    routerchecks.run(chk, 'C01')


def replay(path):
    return routerchecks.replay(path, 'C01')
