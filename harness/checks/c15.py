"""C15: cookies round-trip; forged signed cookies are never deserialised. See specs/Cookies.tla."""
import io
import hashlib
import json
import random
from http.cookies import SimpleCookie

from harness import core
from harness.checks.bodylib import base_environ, call_app

B64 = 'ABCDEFGHIJKLMNOPQRSTUVWXYZabcdefghijklmnopqrstuvwxyz0123456789+/='


class CountingPickle:
    def __init__(self, real, forged=False):
        self.real = real
        self.loads_calls = 0
        self.forged = forged

    def loads(self, *a, **kw):
        self.loads_calls += 1
        if self.forged:
            # bytes an attacker edited have reached the unpickler: that IS the violation (counted above); they are not
            # actually unpickled here (it would be code execution / unbounded allocation inside the checking process)
            return ('forged-payload-not-unpickled', None)
        return self.real.loads(*a, **kw)

    def __getattr__(self, n):
        return getattr(self.real, n)


def s2l(s):
    return [ord(c) for c in s]


def set_and_capture(app, name, value, secret=None, via='response'):
    """Serve a request whose handler sets the cookie; return the cookie-value exactly as a client stores it
    (the text between 'name=' and the first ';' of the Set-Cookie header, as bytes of the wire)."""
    from ombott import HTTPResponse
    app._verif = (name, value, secret, via)
    if via == 'redirect':
        # the cookie is set on the response and the handler then redirects: redirect() copies the response (default app only)
        import ombott
        d = ombott.app
        d._verif = (name, value, secret, via)
        if not getattr(d, '_verif_route', False):
            def sr():
                n_, v_, s_, _ = d._verif
                ombott.response.set_cookie(n_, v_, secret=s_)
                ombott.redirect('/next')
            d.route('/__setr__', callback=sr)
            d._verif_route = True
        status, line, headers, body, n = call_app(d, base_environ(PATH_INFO='/__setr__'))
        ok_status = (302, 303)
    else:
        status, line, headers, body, n = call_app(app, base_environ(PATH_INFO='/set'))
        ok_status = (200,)
    sc = [v for k, v in headers if k == 'Set-Cookie']
    if status not in ok_status or not sc:
        return None, status
    hv = sc[0]
    wire = hv.encode('latin1')          # what the WSGI server puts on the wire
    first = wire.split(b';')[0] if not wire.split(b'=', 1)[1].startswith(b'"') else None
    # a quoted cookie-value may contain ';' only as octal escape, so splitting the quoted form at the closing quote is safe
    nv = wire
    eq = nv.index(b'=')
    if nv[eq + 1:eq + 2] == b'"':
        end = eq + 2
        while end < len(nv):
            if nv[end:end + 1] == b'\\':
                end += 2
                continue
            if nv[end:end + 1] == b'"':
                break
            end += 1
        raw_val = nv[eq + 1:end + 1]
    else:
        raw_val = nv[eq + 1:].split(b';')[0]
    return raw_val, status


def read_back(app, name, raw_val, secret=None, rewrite=None, forged=False):
    """Send the stored cookie-value back; returns (value seen by get_cookie, loads calls).  With `rewrite` the handler first
    reads the cookie, then replaces the request's Cookie header by `rewrite` and reads again (the second answer is returned)."""
    import ombott.common_helpers as ch
    env = base_environ(PATH_INFO='/get', HTTP_COOKIE=(name.encode('latin1') + b'=' + raw_val).decode('latin1'))
    app._verif = (name, None, secret, rewrite)
    cp = CountingPickle(ch.pickle.real if isinstance(ch.pickle, CountingPickle) else ch.pickle, forged=forged)
    ch.pickle = cp
    try:
        status, line, headers, body, n = call_app(app, env)
    except (MemoryError, RecursionError, Exception) as e:   # noqa -- e.g. pickle.loads fed with attacker bytes: MemoryError is re-raised by the framework
        return ('ESCAPED', type(e).__name__), cp.loads_calls
    finally:
        ch.pickle = cp.real
    if status != 200:
        return ('ERROR', status), cp.loads_calls
    return json.loads(body.decode('utf8')), cp.loads_calls


def make_app():
    from ombott import Ombott, HTTPResponse
    app = Ombott()

    @app.route('/set')
    def s():
        name, value, secret, via = app._verif
        if via in ('raised', 'raised-over'):
            if via == 'raised-over':
                # a hook / earlier code has already put a cookie of this name on the application's response (a default, an
                # expired session); the response that is actually sent sets it anew
                app.response.set_cookie(name, 'stale-default', path='/')
            r = HTTPResponse('x')
            r.set_cookie(name, value, secret=secret)
            raise r
        app.response.set_cookie(name, value, secret=secret, path='/')
        if via == 'refused-after':
            # later code tries to put something under the same name that cannot be a cookie (too long; not text and no secret),
            # is refused, and carries on: the cookie that WAS set is still the one the client gets
            for bad, sec in (('y' * 5000, secret), ({'not': 'text'}, None)):
                try:
                    app.response.set_cookie(name, bad, secret=sec, path='/')
                except (ValueError, TypeError):
                    pass
        return 'x'

    @app.route('/get')
    def g():
        name, _, secret, rewrite = app._verif
        v = app.request.get_cookie(name, secret=secret)
        if rewrite is not None:
            app.request['HTTP_COOKIE'] = rewrite
            v = app.request.get_cookie(name, secret=secret)
        return json.dumps({'present': v is not None, 'value': v if isinstance(v, (str, type(None))) else repr(v)})
    return app


def quote_for_header(val):
    """cookie-value -> text a client would send back, for edited signed values (they contain '?', '=')."""
    c = SimpleCookie()
    c['n'] = val
    return c['n'].OutputString().split('=', 1)[1].encode('latin1')


def run(chk):
    from ombott.common_helpers import cookie_encode, touni
    rng = random.Random(chk.seed * 3 + 15)
    thorough = chk.tier == 'thorough'
    ws = core.tla_workspace()
    r = core.run_tlc(ws, 'Cookies', 'Cookies.cfg', allow_violation=True)
    chk.add_tlc(r, 'exhaustive Cookies (all attacker edits, <= 2 per value, symbolic crypto)')
    if not r.ok:
        raise core.MachineryError('model-level: %s\n%s' % (r.violated, r.out[-1500:]))
    chk.exhaustive = True
    app = make_app()
    recs = []
    # ---- plain cookies
    cps = [97, 98, 32, 59, 44, 61, 34, 39, 92, 63, 33, 37, 38, 43, 47, 126, 233, 255, 128, 0x100, 0x20AC, 0x4E2D, 0x1F600, 9,
           48, 49, 51, 55, 92]
    # values whose quoted form contains what looks like an escape of the cookie quoting (\ooo octal, \", \\)
    curated = ['C:\\101\\tmp', '\\101', '\\2024', '\\072', '\\377', '"\\134"', '\\\\101', 'a\\"b', '\\0', '\\12', '\\1234;x', 'x\\134\\073y',
               '%41', '%5C101', 'a+b', '\\u0041', '\\x41',
               # long values that set_cookie accepts (<= 4096 characters) whatever their quoted form on the wire grows to
               ';,"\\' * 340, '\xe9' * 1100, 'a' * 4095, 'a;' * 2000, '"' * 2100, 'x' * 4000 + ';' * 90]
    for it in range((3000 if thorough else 500) + len(curated)):
        n = rng.choice([1, 1, 2, 3, 6, 20])
        val = curated[it] if it < len(curated) else ''.join(chr(rng.choice(cps)) for _ in range(n))
        name = rng.choice(['c', 'sid', 'a_b', 'X-1'])
        raw, st = set_and_capture(app, name, val, via=rng.choice(['response', 'raised', 'redirect', 'raised-over', 'refused-after']))
        if raw is None:
            got, present = [], False
        else:
            res, _ = read_back(app, name, raw)
            present = isinstance(res, dict) and res['present']
            got = s2l(res['value']) if present else []
        recs.append({'kind': 'plain', 'sent': s2l(val), 'got': got, 'present': present, 'max_cp': max(map(ord, val)), 'name': name})
        chk.count(1, ('plain', val))
    # ---- signed cookies: honest round trips
    secrets = ['s3cret', 'other-secret', 'k' * 40]
    values = ['v', 'text with ; and "quotes"', 'é€', {'user': 'root', 'ids': [1, 2, 3]}, ('t', 1), None, 0, 3.5, ['x', {'y': b'z'}], 'a' * 600,
              # values that compare equal across types, one after the other under one name and secret
              1, True, 1.0, 0.0, -0.0, False, (1, 2), (1.0, 2), frozenset({1}), frozenset({True})]
    minted = []
    for sec in secrets[:2]:
        for i, v in enumerate(values):
            name = 'sess%d' % (i % 3) if i < 10 else 'same'
            raw, st = set_and_capture(app, name, v, secret=sec, via=rng.choice(['response', 'response', 'redirect', 'raised-over', 'refused-after']))
            if raw is None:
                continue
            res, loads = read_back(app, name, raw, secret=sec)
            present = isinstance(res, dict) and res['present']
            want = v if isinstance(v, (str, type(None))) else repr(v)
            genuine = v is not None       # a stored None cannot be told from absent (get_cookie returns the default)
            if genuine:
                recs.append({'kind': 'signed', 'cls': 'honest', 'genuine': True, 'serverSigned': True, 'present': present, 'valueOk': present and res['value'] == want,
                             'loads': loads, 'pos': -1})
            chk.count(1, ('honest', sec, repr(v)))
            # the stored text, unquoted, is the wire value the attacker edits
            c = SimpleCookie()
            c.load((name.encode() + b'=' + raw).decode('latin1'))
            if name in c and c[name].value.startswith('!') and '?' in c[name].value:      # (else: not a signed value at all; the honest record above says so)
                minted.append((sec, name, v, c[name].value))
    # ---- attacker edits on every byte position
    def attack(cls, sec, name, edited, pos=-1, orig=None):
        if edited == orig:
            return
        res, loads = read_back(app, name, quote_for_header(edited), secret=sec, forged=cls not in ('other-name', 'hmac-equivalent-secret', 'other-secret', 'other-long-secret'))
        present = isinstance(res, dict) and res['present']
        recs.append({'kind': 'signed', 'cls': cls, 'genuine': False, 'serverSigned': cls == 'other-name', 'present': present, 'valueOk': False, 'loads': loads, 'pos': pos,
                     'edited': edited[:80], 'name': name})
        chk.count(1, (cls, name, edited))
    pool = minted if thorough else [m for m in minted if len(m[3]) < 200][:5]
    for sec, name, v, w in pool:
        q = w.index('?')
        for i in range(len(w)):
            for ch_ in ([rng.choice(B64), 'A', '!', '?', '"'] if not thorough else list('Aa0+/=!?"x')):
                attack('subst', sec, name, w[:i] + ch_ + w[i + 1:], i, w)
            attack('delete', sec, name, w[:i] + w[i + 1:], i, w)
            attack('truncate', sec, name, w[:i], i, w)
            if thorough or i % 5 == 0:
                attack('insert', sec, name, w[:i] + 'A' + w[i:], i, w)
        attack('empty-sig', sec, name, '!?' + w[q + 1:], -1, w)
        # edits that a lenient base64 decoder ignores: the unused low bits of the last data character, anything after the padding,
        # characters outside the alphabet anywhere
        last = len(w) - 1
        while last > q and w[last] == '=':
            last -= 1
        for pos_ in sorted({last, last - 1, q + 1, q - 1, q - 2}):
            if q < pos_ < len(w) or 1 <= pos_ < q:
                for ch_ in B64[:64]:
                    attack('subst-all', sec, name, w[:pos_] + ch_ + w[pos_ + 1:], pos_, w)
        for tail in ['A', '=', '==', 'AAAA', '-', '.', '~', ' ', '\n']:
            attack('append', sec, name, w + tail, len(w), w)
        for pos_ in (q + 1, q + 3, (q + len(w)) // 2, len(w) - 1, 2, q - 1):
            for ch_ in '-.~ _*':
                attack('insert-nonalpha', sec, name, w[:pos_] + ch_ + w[pos_:], pos_, w)
        attack('sig-prefix', sec, name, '!' + w[1:q][:5] + '?' + w[q + 1:], -1, w)
        attack('no-bang', sec, name, w[1:], -1, w)
        for sec2, name2, v2, w2 in minted:
            q2 = w2.index('?')
            if sec2 != sec:
                attack('other-secret', sec, name, w2, -1, w)                       # minted under another secret
                attack('sig-swap-other-secret', sec, name, w2[:q2] + w[q:], -1, w)
            elif w2 != w:
                attack('sig-swap-other-message', sec, name, w2[:q2] + w[q:], -1, w)
                if name2 != name:
                    attack('other-name', sec, name, w2, -1, w)                      # genuine cookie of another name presented under this one
    # long secrets that differ only far from their beginning (per-user keys derived as master + ':' + user) are different secrets
    master = 'm' * 64
    for sa, sb in ((master + ':alice', master + ':bob'), ('k' * 70, 'k' * 71), (master * 2 + 'x', master * 2 + 'y')):
        rawa, _st = set_and_capture(app, 'lk', {'user': 'alice'}, secret=sa, via='response')
        if rawa is None:
            continue
        c = SimpleCookie()
        c.load((b'lk=' + rawa).decode('latin1'))
        attack('other-long-secret', sb, 'lk', c['lk'].value, -1, None)
    # secrets that HMAC itself cannot tell apart (RFC 2104 key preparation: a key shorter than the 64-byte block is padded with
    # zero bytes, a longer one is replaced by its digest) are still different secrets to the application
    def hmac_key(k):
        k = k.encode('utf8') if isinstance(k, str) else k
        k = hashlib.md5(k).digest() if len(k) > 64 else k
        return k.ljust(64, b'\0')
    for sa, sb in ((b'staple', b'correct horse battery'), (b'hunter2', b'correct horse battery'), (b'', b'correct horse battery'), (b'c', 'correct horse battery'),
                   ('k', 'k\x00'), ('s3cret', 's3cret\x00\x00'), ('k' * 70, hashlib.md5(b'k' * 70).digest()), ('k', 'k\x01'), ('k' * 64, 'k' * 64 + '\x00')):
        rawa, _st = set_and_capture(app, 'hk', {'user': 'alice'}, secret=sa, via='response')
        if rawa is None:
            continue
        c = SimpleCookie()
        c.load((b'hk=' + rawa).decode('latin1'))
        n0 = len(recs)
        attack('hmac-equivalent-secret' if hmac_key(sa) == hmac_key(sb) else 'other-secret', sb, 'hk', c['hk'].value, -1, None)
        for t in recs[n0:]:
            t['edited'] = 'cookie minted under secret %r presented to a reader using secret %r' % (sa, sb)
    # the Cookie header of a request is rewritten through the request object (request['HTTP_COOKIE'] = ...): what was verified
    # before says nothing about the new header
    for sec, name, v, w in pool[:4]:
        q = w.index('?')
        for cls, edited in (('rewrite-tampered', w[:q + 2] + ('A' if w[q + 2] != 'A' else 'B') + w[q + 3:]), ('rewrite-truncated', w[:q]), ('rewrite-removed', None)):
            res, loads = read_back(app, name, quote_for_header(w), secret=sec,
                                   rewrite=(name.encode('latin1') + b'=' + quote_for_header(edited)).decode('latin1') if edited is not None else 'other=1')
            present = isinstance(res, dict) and res['present']
            recs.append({'kind': 'signed', 'cls': cls, 'genuine': False, 'serverSigned': False, 'present': present, 'valueOk': False,
                         'loads': max(0, loads - 1), 'pos': -1, 'edited': str(edited)[:80], 'name': name})
            chk.count(1, (cls, name))
    # forged payload signed with a guessed (wrong) secret
    for sec, name, v, w in pool[:3]:
        forged = touni(cookie_encode((name, {'user': 'root'}), 'guess'))
        attack('forged-wrong-secret', sec, name, forged, -1, w)
    chk.sample({'kind': 'edit', 'class': recs[-1]['cls'], 'edited': recs[-1].get('edited'), 'present': recs[-1]['present'], 'loads': recs[-1]['loads']})
    chk.sample({'kind': 'plain', 'sent': ''.join(map(chr, recs[3]['sent'])), 'got': ''.join(map(chr, recs[3]['got']))})
    missing, fails = core.validate_records(chk, 'CookieTrace', recs, 'C15',
                                           strip=lambda t: {k: v for k, v in t.items() if k in ('kind', 'sent', 'got', 'present', 'cls', 'genuine', 'valueOk', 'loads', 'serverSigned')} | ({'sent': [], 'got': []} if t['kind'] != 'plain' else {'cls': '', 'genuine': False, 'valueOk': False, 'loads': 0, 'serverSigned': False}))
    for i, cl in sorted(fails.items()):
        t = recs[i]
        if t['kind'] == 'plain':
            sent = ''.join(map(chr, t['sent']))
            chk.violation('C15: %s fails: plain cookie %r set on a response reads back as %r'
                          % (sorted(cl), sent, ''.join(map(chr, t['got'])) if t['present'] else None),
                          {'kind': 'plain', 'sent': t['sent'], 'clauses': sorted(cl), 'max_codepoint': t['max_cp'],
                           'plain_value_has_codepoint_above_255': t['max_cp'] > 255, 'only_whitespace_or_empty': sent.strip() == ''})
        else:
            chk.violation('C15: %s fails: signed cookie edit %s at %s (%r): present=%s pickle.loads calls=%s'
                          % (sorted(cl), t['cls'], t['pos'], t.get('edited'), t['present'], t['loads']),
                          {'kind': 'signed', 'class': t['cls'], 'pos': t['pos'], 'edited': t.get('edited'), 'clauses': sorted(cl),
                           'secrets_are_the_same_hmac_key': t['cls'] == 'hmac-equivalent-secret'})
    drift = sorted(set(missing) - set(fails))
    if drift:
        chk.drift('C15: %d records: number of pickle.loads calls for a genuine cookie is not 1' % len(drift))
    chk.extra['assumptions'] = ['HMAC-MD5, base64 and pickle are uninterpreted injective constructors in the model; exercised concretely by the replay',
                                'http.cookies.SimpleCookie quoting is trusted (stdlib); the client returns the cookie-value byte for byte',
                                'an empty value or a stored None is not told from "absent" (outside the round-trip claim)']
    chk.extra['rule'] = 'plain values over a 24-code-point alphabet incl. separators, quotes, Latin-1 and non-Latin-1; for each minted signed cookie every byte substitution/deletion/truncation/insertion, signature and payload swaps, other secrets, empty/prefix signatures'


def replay(path):
    print(json.dumps(json.load(open(path))['case'], indent=1))
    return 1
