"""C14: response header values cannot split the response and are wire-safe. See specs/Headers.tla."""
import json
import random

from harness import core
from harness.checks.bodylib import base_environ, call_app

NAMES = ['X-A', 'X-B', 'Content-Type', 'content-length', 'Content-Length', 'Allow', 'Last-Modified', 'content-TYPE', 'Content-Encoding',
         'CONTENT-RANGE', 'Content-Md5', 'Set-Cookie2', 'Content-Language', 'last-modified']


def s2l(s):
    return [ord(c) for c in s]


class Obj:
    def __str__(self):
        return 'obj\r\nInjected: 1'


def rand_value(rng):
    k = rng.choice(['clean', 'clean', 'ctl', 'ctl', 'uni', 'odd', 'int', 'float', 'bool', 'None', 'bytes', 'list', 'object', 'intctl'])
    if k == 'clean':
        return ''.join(rng.choice('abc XYZ-_/;=,"\'') for _ in range(rng.randint(0, 12)))
    if k == 'ctl':
        base = [rng.choice('ab c:;') for _ in range(rng.randint(0, 6))]
        for _ in range(rng.choice([1, 1, 2])):
            base.insert(rng.randint(0, len(base)), rng.choice(['\r', '\n', '\0', '\r\n']))
        return ''.join(base)
    if k == 'uni':
        return ''.join(chr(rng.choice([0x41, 0x7F, 0x80, 0xE9, 0xFF, 0x100, 0x7FF, 0x800, 0x20AC, 0xFFFF, 0x10000, 0x1F600, 0x10FFFF])) for _ in range(rng.randint(1, 5)))
    if k == 'odd':
        return ''.join(rng.choice(['\x0b', '\x0c', '\x1c', '\x85', ' ', ' ', '\t', 'a']) for _ in range(rng.randint(1, 4)))
    if k == 'int':
        return rng.choice([0, 1, -5, 10 ** 12])
    if k == 'float':
        return rng.choice([0.5, 1e-9, -3.25, float('inf'), 1.0, 0.0, -0.0, 1.0, 0.0])      # values that compare equal across types (True == 1 == 1.0)
    if k == 'bool':
        return rng.choice([True, False])
    if k == 'None':
        return None
    if k == 'bytes':
        return rng.choice([b'abc', b'a\r\nb'])
    if k == 'list':
        return rng.choice([['a', 'b'], ['x\r\ny']])
    if k == 'intctl':
        return rng.choice(['1\n', '\n', '\r', '\0'])
    return Obj()


def tclass(v):
    if v is None:
        return 'None'
    if isinstance(v, bool):
        return 'bool'
    for t, n in ((str, 'str'), (int, 'int'), (float, 'float'), (bytes, 'bytes'), (list, 'list')):
        if isinstance(v, t):
            return n
    return 'object'


def apply_call(target, entry, name, v):
    try:
        if entry == 'setitem':
            target.headers[name] = v
        elif entry == 'append':
            target.headers.append(name, v)
        elif entry == 'setdefault':
            target.headers.setdefault(name, v)
        elif entry == 'property':
            if name == 'Content-Type':
                target.content_type = v
            elif name == 'Expires':
                target.expires = v
            else:
                target.content_length = v
        return 'ok'
    except TypeError:
        return 'TypeError'
    except ValueError:
        return 'ValueError'


def run(chk):
    from ombott import Ombott, HTTPResponse, HTTPError, Response
    rng = random.Random(chk.seed * 5 + 14)
    thorough = chk.tier == 'thorough'
    ws = core.tla_workspace()
    r = core.run_tlc(ws, 'MC_Headers', 'MC_Headers.cfg', allow_violation=True)
    chk.add_tlc(r, 'exhaustive MC_Headers (<= 2 setter calls x value classes x statuses)')
    if not r.ok:
        raise core.MachineryError('model-level: %s\n%s' % (r.violated, r.out[-1500:]))
    chk.exhaustive = True
    app = Ombott()
    plan = {}

    def bad_status(tgt):
        # an assignment the response refuses (and the handler survives) leaves the response as it was
        if plan.get('bad_status') is not None:
            try:
                tgt.status = plan['bad_status']
            except (ValueError, TypeError):
                pass

    @app.route('/h')
    def h():
        calls, status, mode = plan['calls'], plan['status'], plan['mode']
        if mode == 'response':
            tgt = app.response
            tgt.status = status
            bad_status(tgt)
            for c in calls:
                c['out'] = apply_call(tgt, c['entry'], c['name'], c['v'])
            if plan.get('copy'):
                # what redirect() does: a copy of the application's response as a response object of its own, then returned
                try:
                    cp = tgt.copy(cls=HTTPResponse)
                    cp.body = 'body' if status not in (204, 304) else ''
                    return cp
                except TypeError:
                    pass      # (copy() does not support multi-valued headers on this tree)
            return 'body' if status not in (204, 304) else ''
        # HTTPResponse built with constructor arguments, then mutated, then returned or raised
        ctor = [c for c in calls if c['entry'] == 'ctor']
        try:
            if plan['ctor_kw']:
                resp = HTTPResponse('body', status, **{c['name']: c['v'] for c in ctor})
            elif plan['ctor_dict']:
                resp = HTTPResponse('body', status, headers={c['name']: c['v'] for c in ctor})
            else:
                resp = HTTPResponse('body', status, headers=[(c['name'], c['v']) for c in ctor])
            for c in ctor:
                c['out'] = 'ok'
        except (TypeError, ValueError) as e:
            # the constructor stops at the first bad value: replay one by one to attribute outcomes
            resp = HTTPResponse('body', status)
            for c in ctor:
                try:
                    resp.headers.append(c['name'], c['v'])
                    c['out'] = 'ok'
                except TypeError:
                    c['out'] = 'TypeError'
                except ValueError:
                    c['out'] = 'ValueError'
        bad_status(resp)
        for c in calls:
            if c['entry'] != 'ctor':
                c['out'] = apply_call(resp, c['entry'], c['name'], c['v'])
        if plan.get('copy'):
            # a copy of the response object (what redirect() and error handling work on) carries the same header text
            try:
                resp = resp.copy()
            except TypeError:
                pass          # (copy() does not support multi-valued headers on this tree: the original is emitted)
        if plan['raise']:
            raise resp
        return resp
    recs = []
    for _ in range(12000 if thorough else 2500):
        mode = rng.choice(['response', 'httpresponse'])
        n = rng.choice([1, 1, 2, 3])
        calls = []
        for _i in range(n):
            entry = rng.choice(['setitem', 'append', 'setdefault', 'property'] + (['ctor', 'ctor'] if mode == 'httpresponse' else []))
            name = rng.choice(NAMES)
            if entry == 'property':
                name = rng.choice(['Content-Type', 'Content-Length', 'Expires'])
            v = rand_value(rng)
            if entry == 'property' and name == 'Expires':
                # the attribute formats dates and numbers (http_date); text is stored as given -- and must pass the same guard
                while not isinstance(v, str):
                    v = rand_value(rng)
            if entry == 'setdefault' and isinstance(v, list):
                continue          # a list argument to setdefault is not a single-value setter
            if calls and rng.random() < 0.25 and entry in ('append', 'ctor'):
                # the very same value object offered again for the same name (a shared constant)
                name, v = calls[-1]['name'], calls[-1]['v']
                if entry == 'property':
                    name = calls[-1]['name']
            calls.append({'entry': entry, 'name': name, 'v': v})
        if not calls:
            continue
        calls.sort(key=lambda c: c['entry'] != 'ctor')      # constructor arguments are applied first
        # constructor keyword arguments must be identifiers
        ctor_kw = rng.random() < 0.5 and all(c['name'].replace('-', '').isalnum() and '-' not in c['name'] for c in calls if c['entry'] == 'ctor')
        # the dict form needs distinct names
        ctor_names = [c['name'] for c in calls if c['entry'] == 'ctor']
        ctor_dict = (not ctor_kw) and rng.random() < 0.5 and len(set(ctor_names)) == len(ctor_names)
        if len(set(ctor_names)) != len(ctor_names):
            ctor_kw = False          # keyword arguments cannot repeat a name
        status = rng.choice([200, 200, 204, 304, 404, 201])
        plan.update(calls=calls, status=status, mode=mode, ctor_kw=ctor_kw, ctor_dict=ctor_dict, copy=rng.random() < 0.3, **{'raise': rng.random() < 0.4},
                    bad_status=rng.choice([1000, 99, 0, -304, '1000 Too Big', 'abc', '99 Low']) if rng.random() < 0.2 else None)
        st, line, headers, body, nsr = call_app(app, base_environ(PATH_INFO='/h'))
        if st == 500:
            # e.g. content_length reader is not involved; a 500 here means a setter let something through that broke headerlist
            pass
        rec = {'status': st if st != 500 else status, 'got500': st == 500,
               'calls': [{'entry': c['entry'], 'name': c['name'], 'lname': c['name'].lower(), 't': tclass(c['v']),
                          's': s2l(str(c['v'])) if tclass(c['v']) in ('str', 'int', 'float', 'bool', 'None') else s2l(tclass(c['v'])),
                          'out': c.get('out', 'notrun')} for c in calls],
               'emitted': [{'name': k, 'lname': k.lower(), 'val': s2l(v)} for k, v in headers],
               'types_ok': all(isinstance(k, str) and isinstance(v, str) for k, v in headers), 'mode': mode}
        recs.append(rec)
        chk.count(1, (mode, status, json.dumps([[c['entry'], c['name'], repr(c['v'])] for c in calls])))
    chk.sample({'calls': [[c['entry'], c['name'], ''.join(map(chr, c['s'])), c['out']] for c in recs[7]['calls']], 'status': recs[7]['status'],
                'emitted': [[e['name'], ''.join(map(chr, e['val']))] for e in recs[7]['emitted']]})
    good = [t for t in recs if not t['got500'] and all(c['out'] != 'notrun' for c in t['calls'])]
    missing, fails = core.validate_records(chk, 'HeaderTrace', good, 'C14',
                                           strip=lambda t: {'status': t['status'], 'calls': t['calls'], 'emitted': t['emitted']})
    for i, cl in sorted(fails.items()):
        t = good[i]
        chk.violation('C14: %s fails: calls %s with status %s emitted %s'
                      % (sorted(cl), [[c['entry'], c['name'], ''.join(map(chr, c['s']))[:30], c['out']] for c in t['calls']], t['status'],
                         [[e['name'], ''.join(map(chr, e['val']))[:30]] for e in t['emitted']]),
                      {'calls': [[c['entry'], c['name'], c['s'], c['t'], c['out']] for c in t['calls']], 'status': t['status'], 'clauses': sorted(cl)})
    for t in recs:
        if t['got500']:
            chk.violation('C14: a header operation sequence made the response fail with 500: %s'
                          % [[c['entry'], c['name'], ''.join(map(chr, c['s']))[:30], c['out']] for c in t['calls']],
                          {'calls': [[c['entry'], c['name'], c['s'], c['t'], c['out']] for c in t['calls']], 'status': t['status'], 'clauses': ['HeaderListTotal']})
        if not t['types_ok']:
            chk.violation('C14: emitted header list contains a non-str element', {'clauses': ['NativeStrings'], 'status': t['status']})
    # text that cannot be encoded at all (lone surrogates, as os.fsdecode produces for undecodable file names): such a value is
    # either refused, or the response fails as a whole; it is never handed to the server as bytes that are not the UTF-8
    # form of what was offered
    splan = {}

    @app.route('/sg')
    def sg():
        tgt = app.response if splan['mode'] == 'response' else HTTPResponse('body')
        try:
            if splan['entry'] == 'setitem':
                tgt.headers['X-Name'] = splan['v']
            elif splan['entry'] == 'append':
                tgt.headers.append('X-Name', splan['v'])
            else:
                tgt.content_type = splan['v']
        except (TypeError, ValueError):
            splan['refused'] = True
        return 'body' if splan['mode'] == 'response' else tgt
    for v in ['r\udce9sum\udce9.txt', '\udcc3\udca9', 'a\ud800', '\udfff', 'ok-\udc80-\u20ac']:
        for entry in ('setitem', 'append', 'property'):
            for mode in ('response', 'httpresponse'):
                splan.update(v=v, entry=entry, mode=mode, refused=False)
                try:
                    st, line, headers, body, nsr = call_app(app, base_environ(PATH_INFO='/sg'))
                except Exception:   # noqa
                    st, headers = 500, []
                chk.count(1, ('surrogate', v, entry, mode))
                name = 'Content-Type' if entry == 'property' else 'X-Name'
                got = [hv for hk, hv in headers if hk == name and not (name == 'Content-Type' and hv.startswith('text/html'))]
                if st == 200 and not splan['refused'] and got:
                    chk.violation("C14: ['Latin1'] fails: %s %r (unencodable text) on %s was emitted as %r, which is not the UTF-8 form of any text that was offered"
                                  % (entry, v, mode, got[0]), {'value': [ord(c) for c in v], 'entry': entry, 'mode': mode, 'clauses': ['Latin1'], 'surrogate': True})
    # Set-Cookie lines are response header values too: one line per cookie, whole, whatever text the cookie carries
    cplan = {}

    @app.route('/ck')
    def ck():
        tgt = app.response if cplan['mode'] == 'response' else HTTPResponse('body')
        for nm, val, opts in cplan['cookies']:
            tgt.set_cookie(nm, val, **opts)
        return 'body' if cplan['mode'] == 'response' else tgt
    texts = ['plain', '\u0445\u043e\u0440\u043e\u0448\u043e', 'mi\u0105sto', '\u00c5ngstr\u00f6m', '\u4e2d\u6587', '\u20ac5', 'a b;c,d', 'tab\there', 'x\x0by', 'q"uote', '\u2028sep', '\x85nel',
             '\u0445' * 40, 'caf\u00e9']
    for _ in range(1500 if thorough else 300):
        k = rng.choice([1, 2, 3, 5])
        cookies = []
        for i in range(k):
            opts = {}
            if rng.random() < 0.4:
                opts['path'] = '/' + rng.choice(texts[:6])
            if rng.random() < 0.2:
                opts['domain'] = rng.choice(['example.org', 'mi\u0105sto.example', '\u00c5.example'])
            if rng.random() < 0.2:
                opts['httponly'] = True
            cookies.append(('c%d' % i, rng.choice(texts), opts))
        cplan.update(mode=rng.choice(['response', 'httpresponse']), cookies=cookies)
        st, line, headers, body, nsr = call_app(app, base_environ(PATH_INFO='/ck'))
        got = [v for kk, v in headers if kk.lower() == 'set-cookie']
        chk.count(1, ('cookies', cplan['mode'], json.dumps([[c[0], c[1], sorted(c[2])] for c in cookies])))
        why = None
        if st != 200:
            why = 'status %s' % st
        elif len(got) != len(cookies):
            why = '%d cookies set, %d Set-Cookie lines emitted' % (len(cookies), len(got))
        else:
            for (nm, val, opts), line_ in zip(cookies, got):
                if not line_.startswith(nm + '=') or any(ord(c) < 32 or ord(c) == 127 or ord(c) > 255 for c in line_):
                    why = 'the line for %s is %r' % (nm, line_[:60])
                elif 'path' in opts and 'Path=' not in line_:
                    why = 'the line for %s lost its Path attribute: %r' % (nm, line_[:80])
        if why:
            chk.violation('C14: [\'CookieLinesWhole\'] fails: set_cookie calls %s on %s -> %s; emitted %s'
                          % ([[c[0], c[1][:20], c[2]] for c in cookies], cplan['mode'], why, [g[:50] for g in got]),
                          {'cookies': [[c[0], [ord(x) for x in c[1]], c[2]] for c in cookies], 'mode': cplan['mode'], 'clauses': ['CookieLinesWhole']})
    drift = sorted(set(missing) - set(fails))
    if drift:
        t = good[drift[0]]
        chk.drift('C14: %d records whose accept/reject outcomes differ from the _hval transcription (first: %s)'
                  % (len(drift), [[c['entry'], c['name'], c['t'], c['out']] for c in t['calls']]))
    chk.extra['assumptions'] = ['only single-value setters are entry points (update(), assigning headers.dict and list arguments to setdefault are not)',
                                'lone surrogates are not text', 'header names are compared case-insensitively for the 204/304 blacklist']
    chk.extra['rule'] = '1-3 calls of {item assignment, append, setdefault, content_type/content_length attributes, constructor headers/kwargs} x 14 value classes x statuses {200,201,204,304,404} on app.response and on returned/raised HTTPResponse objects, observed at start_response'


def replay(path):
    print(json.dumps(json.load(open(path))['case'], indent=1))
    return 1
