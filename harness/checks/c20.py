"""C20: framework error pages never reflect request data unescaped. See specs/ErrPage.tla."""
import io
import itertools
import json
import os
import random

from harness import core
from harness.checks.bodylib import base_environ, call_app

ALPHA = '<>"\'&{}\\%aé'
EXTRA = ['{e.status}', '{0}', '{url}', '{e.body!r}', '{', '}', '{{', '}}', '<script>alert(1)</script>', '"><img src=x onerror=alert(1)>',
         "'-alert(1)-'", '&lt;', '&amp;amp;', '%3Cb%3E', '\\', '\\\\x', '{exception}', '{traceback}', '{e.__class__}', 'a b', '<é>']


def s2l(s):
    return [ord(c) for c in s]


def make_app(was_debug=None):
    from ombott import Ombott
    app = Ombott({'max_body_size': 50, 'debug': True} if was_debug else {'max_body_size': 50})

    @app.route('/only-post/<x:path>', method='POST')
    def p(x):
        return 'ok'

    @app.route('/only-post', method='POST')
    def p2():
        return 'ok'

    @app.route('/crash/<x:path>')
    def c(x):
        raise ValueError('boom <b>' + x)

    @app.route('/crash')
    def c2():
        raise ValueError('boom')

    # the failure happens while the handler's OUTPUT is evaluated (first next() of a generator, a lazy iterable), with
    # request data in the exception text
    @app.route('/gencrash/<x:path>')
    def g(x):
        raise ValueError('cannot render <i>' + x + ' ' + app.request.query_string)
        yield 'never'

    @app.route('/gencrash')
    def g2():
        return (int(v) for v in [app.request.query_string])

    @app.route('/body', method='POST')
    def b():
        return app.request.body.read()
    hooked = Ombott()

    @hooked.on('before_request')
    def _site_defaults():
        hooked.response.headers['X-Frame-Options'] = 'DENY'
        hooked.response.content_type = 'text/html; charset=utf-8'

    @hooked.route('/only-post', method='POST')
    def hp():
        return 'ok'

    @hooked.route('/crash')
    def hc():
        raise ValueError('boom ' + hooked.request.query_string)
    app.hooked = hooked
    # a development application in the same process runs with debug on: that is ITS configuration
    dev = Ombott()
    dev.config.debug = True
    app.dev = dev
    if was_debug:
        # developed with debug on (pages with exception text and traceback were rendered), then switched off for production
        for pth in ('/nowhere', '/crash', '/gencrash/x'):
            call_app(app, base_environ(PATH_INFO=pth))
        if was_debug == 'setup':
            app.setup({'max_body_size': 50, 'debug': False})
        else:
            app.config.debug = False
    crit = Ombott()

    @crit.error(404)
    def e404(err):
        raise RuntimeError('error handler failed')
    return app, crit


def request(apps, kind, ch, payload, want_json):
    """Build and serve one request whose `ch` channel carries the marked payload; returns the record."""
    app, crit = apps
    marked = 'zq' + payload + 'qz'
    env = base_environ()
    path = {'404': '/nowhere', '405': '/only-post', '500': '/crash', '500g': '/gencrash', '400': '/body', '413': '/body', 'critical': '/nowhere', '400p': '/x'}[kind]
    the_app = app
    if kind == 'critical':
        the_app = crit
    if getattr(request, 'use_hooked', False) and kind in ('404', '405', '500') and ch != 'path':
        the_app = app.hooked
    if ch == 'path0':
        # the marked text IS the first segment of the path ('/zq://[...': reads like a URL with a scheme and a broken host)
        path = '/' + marked
        ch = 'path'
    elif ch == 'path':
        if kind == '400p':
            marked = 'zq' + payload + '\xff' + 'qz'      # an undecodable byte inside the reflected text
        path = path + '/' + marked
    elif ch == 'query':
        env['QUERY_STRING'] = 'a=' + marked
    elif ch == 'host':
        env['HTTP_HOST'] = marked
    if kind == '400':
        env.update(REQUEST_METHOD='POST', HTTP_TRANSFER_ENCODING='chunked')
        env['wsgi.input'] = io.BytesIO(b'zz\r\n')
    elif kind == '413':
        env.update(REQUEST_METHOD='POST', CONTENT_LENGTH='500')
        env['wsgi.input'] = io.BytesIO(b'x' * 500)
    if kind == '400p':
        env['PATH_INFO'] = path          # raw latin1 with an undecodable byte
    else:
        env['PATH_INFO'] = path.encode('utf8').decode('latin1')
    if want_json:
        # JSON asked for as clients do: bare, with a quality value or a parameter, first in a list
        env['HTTP_ACCEPT'] = ['application/json', 'application/json;q=0.9, */*;q=0.1', 'application/json; charset=utf-8', 'application/json, text/plain, */*',
                              'application/json;q=1.0, text/html;q=0.5'][(len(payload) + len(kind) + len(ch)) % 5]
    status, line, headers, body, nsr = call_app(the_app, env)
    ctype = dict(headers).get('Content-Type', '')
    text = body.decode('utf8', 'replace')
    return {'kind': 'critical' if kind == 'critical' else kind.rstrip('pg'), 'ch': ch, 'payload': s2l(marked), 'json': bool(want_json) and kind != 'critical',
            'status': status, 'ctype': s2l(ctype), 'body': s2l(text), 'kind_full': kind, 'payload_text': payload}


def template_fault_records(chk):
    """Crash point: the error page template cannot be read when the first error page of a process is due (zipped / frozen
    deployment, file permissions).  Whatever page is produced then must obey the same escaping rules.  Served in an interpreter
    of its own, because the template is loaded once per process."""
    import subprocess
    import sys
    code = r'''
import sys, json, io, builtins
sys.path.insert(0, %r)
from harness import core
core.setup_repo_path()
_open = builtins.open
def failing_open(file, *a, **kw):
    if str(file).endswith('error.html'):
        raise PermissionError(13, 'Permission denied', str(file))
    return _open(file, *a, **kw)
builtins.open = failing_open
import io as _io
_io_open = _io.open
_io.open = failing_open
from harness.checks import c20
from harness.checks.bodylib import base_environ, call_app
apps = c20.make_app()
out = []
for kind in ('404', '405', '500'):
    for ch in ('query', 'host', 'path'):
        for pl in ('<img src=x onerror=alert(1)>', '"\'', '<b>', 'plain'):
            try:
                r = c20.request(apps, kind, ch, pl, False)
            except Exception as e:
                r = None
            if r is not None:
                out.append(r)
print('RECS' + json.dumps(out))
''' % core.VERIF
    env = dict(os.environ, VERIF_REPO=core.REPO, PYTHONHASHSEED='0')
    p = subprocess.run([sys.executable, '-c', code], capture_output=True, text=True, env=env, timeout=300)
    for line in p.stdout.splitlines():
        if line.startswith('RECS'):
            recs = json.loads(line[4:])
            for r in recs:
                # whatever was asked for, the page that comes out under this fault is judged as a last-resort page
                r['kind_full'] = 'template-unreadable:' + r['kind_full']
                if r['status'] == 500 and r['kind'] != 'critical':
                    r['kind'] = 'critical'
                chk.count(1, ('tmplfault', r['kind_full'], r['ch'], r['payload_text']))
            return recs
    raise core.MachineryError('template-fault interpreter failed: %s' % (p.stdout + p.stderr)[-800:])


def run(chk):
    rng = random.Random(chk.seed * 7 + 20)
    thorough = chk.tier == 'thorough'
    ws = core.tla_workspace()
    r = core.run_tlc(ws, 'MC_ErrPage', 'MC_ErrPage.cfg', allow_violation=True)
    chk.add_tlc(r, 'exhaustive MC_ErrPage (payloads <= 3 x channel x page kind)')
    if not r.ok:
        raise core.MachineryError('model-level: %s\n%s' % (r.violated, r.out[-1500:]))
    chk.exhaustive = True
    apps = make_app()
    payloads = [''.join(t) for n in range(0, 4 if thorough else 3) for t in itertools.product(ALPHA, repeat=n)] + EXTRA
    recs = []
    kinds = ['404', '405', '500', '500g', '400', '413', 'critical', '400p']
    for pl in payloads:
        combos = [(k, c) for k in kinds for c in ('path', 'query', 'host')]
        if not thorough:
            combos = rng.sample(combos, 7)
        for kind, ch in combos:
            if kind == '400p' and ch != 'path':
                continue
            if kind in ('400', '413') and ch == 'path':
                continue
            if kind == 'critical' and ch != 'path':
                continue   # the last-resort page shows PATH_INFO only
            # JSON documents: always for text that needs JSON escaping (backslash, quote), sampled otherwise
            for want_json in ((False, True) if (rng.random() < 0.3 or '\\' in pl or '"' in pl) else (False,)):
                recs.append(request(apps, kind, ch, pl, want_json))
                chk.count(1, (kind, ch, pl, want_json))
    # long URLs (pages may abbreviate them): markup at the very beginning and at the very end of a long query / host
    for pl in ['<b>' + 'a' * 700, 'a' * 700 + '<i>', '"' + 'x' * 600 + "'", '<' + 'é' * 300 + '>', '&' * 520, 'a' * 530 + '{0}<u>']:
        for kind in ('404', '405', '500', '400'):
            for ch in ('query', 'host'):
                recs.append(request(apps, kind, ch, pl, False))
                chk.count(1, (kind, ch, pl[:8], len(pl)))
    # an application whose before-request hook sets response headers and a default content type: the error document is still
    # labelled with the media type of what it is
    request.use_hooked = True
    for pl in ['<img src=x onerror=alert(1)>', '"', 'plain', '<b>']:
        for kind in ('404', '405', '500'):
            for ch in ('query', 'host'):
                for wj in (True, False):
                    recs.append(request(apps, kind, ch, pl, wj))
                    chk.count(1, ('hooked', kind, ch, pl, wj))
    request.use_hooked = False
    # JSON clients asking for paths that read like URLs of their own: whatever the page generator makes of the URL, the answer
    # to a JSON client is a JSON document
    for pl in ['://[', '://[<b>', '://[::1', ':<i>//[x', '://["x"]<u>[']:
        for kind in ('404', '405', '500'):
            if kind == '404':
                recs.append(request(apps, kind, 'path0', pl, True))
                chk.count(1, ('url-like', kind, pl))
    # applications that ran with debug on for a while and were then switched off (both ways of doing that): debug is off NOW
    for how in ('setup', 'attr'):
        apps_d = make_app(was_debug=how)
        for pl in ['<script>alert(1)</script>', '<b>', '"\'', 'plain', '{0}<u>']:
            for kind in ('404', '405', '500', '500g'):
                for ch in ('path', 'query', 'host'):
                    recs.append(request(apps_d, kind, ch, pl, False))
                    chk.count(1, ('was-debug', how, kind, ch, pl))
    recs += template_fault_records(chk)
    # JSON error documents with text that must be escaped in JSON but means nothing to HTML (control characters, backslash sequences)
    for pl in ['C:\\docs\\x', '\\d+', '\\', 'a\\', '\\"', '\tq', 'a\nb', '\x01', '\x1f', '\x7f', '\\u0041', '\\n', '"}', '", "x": "']:
        for kind in ('404', '405', '500', '400', '413'):
            for ch in ('query', 'host'):
                if ch == 'host' and any(ord(c) < 32 for c in pl):
                    continue
                recs.append(request(apps, kind, ch, pl, True))
                chk.count(1, (kind, ch, pl, True))
    # the stale-request situation: every error kind directly after a request with other markup in it
    for _ in range(300 if thorough else 60):
        a = request(apps, rng.choice(['404', '500', '405']), rng.choice(['query', 'host']), rng.choice(EXTRA), False)
        b = request(apps, '400p', 'path', rng.choice(EXTRA), rng.random() < 0.3)
        recs += [a, b]
        chk.count(2, ('seq', a['payload_text'], b['payload_text']))
    chk.sample({'kind': recs[50]['kind_full'], 'channel': recs[50]['ch'], 'payload': recs[50]['payload_text'], 'status': recs[50]['status'],
                'body_excerpt': ''.join(map(chr, recs[50]['body']))[-260:-120]})
    missing, fails = core.validate_records(chk, 'ErrTrace', recs, 'C20',
                                           strip=lambda t: {k: v for k, v in t.items() if k not in ('kind_full', 'payload_text')})
    for i, cl in sorted(fails.items()):
        t = recs[i]
        body = ''.join(map(chr, t['body']))
        j = body.find('zq')
        chk.violation('C20: %s fails: %s page, payload %r sent as %s%s -> status %s, page shows ...%s...'
                      % (sorted(cl), t['kind_full'], t['payload_text'], t['ch'], ' (JSON requested)' if t['json'] else '', t['status'],
                         body[max(0, j - 20):j + 80] if j >= 0 else body[:120]),
                      {'kind': t['kind_full'], 'channel': t['ch'], 'payload': t['payload_text'], 'json': t['json'], 'clauses': sorted(cl)})
    drift = sorted(set(missing) - set(fails))
    if drift:
        t = recs[drift[0]]
        chk.drift('C20: %d pages whose reflected region differs from the transcribed pipeline (first: %s %s %r)'
                  % (len(drift), t['kind_full'], t['ch'], t['payload_text']))
    chk.extra['assumptions'] = ['debug is off', 'payload alphabet is printable (repr() escapes of control characters are not modelled)',
                                'request-controlled text is located by the marker letters zq..qz which no template contains']
    chk.extra['rule'] = 'all payloads of length <= 2/3 over <>"\'&{}\\%aé plus format-string/markup payloads x error kinds {404,405,400,413,500,critical} x channel {path,query,Host} x HTML/JSON'


def replay(path):
    case = json.load(open(path))['case']
    t = request(make_app(), case['kind'], case['channel'], case['payload'], case['json'])
    print(''.join(map(chr, t['body'])))
    return 1
