"""Lifecycle harness (C08, C09, C10): accessor tracing, baton scheduler over real threads,
request kinds, solo-response oracle."""
import io
import os
import json
import sys
import threading

from harness import core
from harness.checks.bodylib import base_environ


# ---------------------------------------------------------------------------
# accessor identification (no source hook: the generated accessors of ts_props are found by introspection)

class Accessors:
    def __init__(self):
        from ombott.request_pkg.request import Request
        from ombott.response import Response
        self.classes = {'Req': Request, 'Resp': Response}
        self.codes = {}     # code object -> kind
        self.props = {}
        for cname, cls in self.classes.items():
            for name, attr in vars(cls).items():
                if isinstance(attr, property) and getattr(attr.fget, '__qualname__', '').startswith('ts_props.'):
                    self.codes[attr.fget.__code__] = 'get'
                    self.codes[attr.fset.__code__] = 'set'
                    self.codes[attr.fdel.__code__] = 'del'
                    self.props.setdefault(cname, []).append(name)
            init = cls.__init__
            if getattr(init, '__qualname__', '').startswith('ts_props.'):
                self.codes[init.__code__] = 'bind'
        self.ok = bool(self.codes) and all(self.props.get(c) for c in self.classes)

    def cls_of(self, obj):
        for cname, cls in self.classes.items():
            if isinstance(obj, cls):
                return cname
        return '?'


class Ids:
    """Stable small integers for Python objects (keeps them alive so ids are not reused)."""

    def __init__(self):
        self.m = {}
        self.keep = []

    def __call__(self, o):
        if o is None:
            return 0
        k = id(o)
        if k not in self.m:
            self.m[k] = len(self.m) + 1
            self.keep.append(o)
        return self.m[k]


RECORDER_BROKEN = False


class Recorder:
    """sys.settrace-based recorder of accessor events; also the yield point of the baton scheduler."""

    def __init__(self, acc, baton=None, line_files=None):
        self.acc, self.baton = acc, baton
        self.ids = Ids()
        self.events = []
        self.tids = {}
        self.line_files = line_files    # tuple of path prefixes for line-granularity preemption
        self.lock = threading.Lock()
        self.broken = False

    def tid(self):
        return self.tids.get(threading.get_ident(), -1)

    def global_trace(self, frame, event, arg):
        if event != 'call':
            return None
        kind = self.acc.codes.get(frame.f_code)
        if kind is None:
            if self.line_files and frame.f_code.co_filename.startswith(self.line_files):
                return self.line_trace
            return None
        t = self.tid()
        if t < 0:
            return None
        if self.baton is not None:
            self.baton.yield_point(t)
        if self.broken:
            return None
        try:
            return self._record(frame, kind, t)
        except Exception:   # noqa -- the observer must never disturb the observed program
            self.broken = True
            return None

    def _record(self, frame, kind, t):
        loc = frame.f_locals
        if kind != 'bind' and ('s' not in loc or 'k' not in loc):
            # the generated accessors are written differently: accessor events cannot be projected (DRIFT), the
            # accessor calls remain pre-emption points of the scheduler
            self.broken = True
            return None
        if kind == 'bind':
            s = loc.get('self')
            e = {'t': t, 'ev': 'bind', 'cls': self.acc.cls_of(s), 'inst': self.ids(s), 'obj': s}
            self.events.append(e)
            return None
        s = loc.get('s')
        store = loc.get('local_store', None)
        if store is None:
            cur = loc.get('current', None)          # per-thread current store (repaired ts_props)
            store = getattr(cur, 'store', None) if cur is not None else None
        if store is None:
            try:
                store = object.__getattribute__(s, '_ts_props')
            except AttributeError:
                store = None
        e = {'t': t, 'ev': kind, 'cls': self.acc.cls_of(s), 'inst': self.ids(s), 'obj': s, 'hit_obj': store,
             'prop': loc.get('k')}
        if kind == 'set':
            e['val'] = self.ids(loc.get('v'))
        self.events.append(e)
        if kind == 'get':
            def ret(frame, event, arg, e=e):
                if event == 'return':
                    if not e.get('exc'):
                        e['val'] = self.ids(arg)
                elif event == 'exception':     # AttributeError: the slot is unset in this thread's view
                    e['val'] = -1
                    e['exc'] = True
                return ret
            return ret
        return None

    def line_trace(self, frame, event, arg):
        if event == 'line' and self.baton is not None:
            t = self.tid()
            if t >= 0:
                self.baton.yield_point(t)
        return self.line_trace

    def bound0(self):
        """Current value of the class-level closure variable of each class (as a store id), 0 if there is none."""
        try:
            return self._bound0()
        except Exception:   # noqa
            self.broken = True
            return {c: 0 for c in self.acc.classes}

    def _bound0(self):
        out = {}
        for cname, cls in self.acc.classes.items():
            out[cname] = 0
            p = self.acc.props[cname][0]
            fget = vars(cls)[p].fget
            for name, cell in zip(fget.__code__.co_freevars, fget.__closure__ or ()):
                if name == 'local_store':
                    try:
                        out[cname] = self.ids(cell.cell_contents)
                    except ValueError:
                        pass
        return out

    def finish_events(self):
        """Resolve store identities: the store an instance owns is the threading.local kept in its _ts_props slot."""
        own = {}
        out = []
        if self.broken:
            global RECORDER_BROKEN
            RECORDER_BROKEN = True
            return []
        for e in self.events:
            o = e.pop('obj', None)
            if o is not None:
                try:
                    own[e['inst']] = self.ids(object.__getattribute__(o, '_ts_props'))
                except AttributeError:
                    pass
        for e in self.events:
            e.pop('exc', None)
            h = e.pop('hit_obj', None)
            e['own'] = own.get(e['inst'], 0)
            if e['ev'] not in ('bind', 'req'):
                e['hit'] = self.ids(h)
                e.setdefault('val', -1)
            out.append(e)
        return out


class Baton:
    """One thread runs at a time.  `schedule` is a list of thread indices consumed one per yield point
    (who runs next); when exhausted the current thread keeps running; finished threads are skipped."""

    def __init__(self, n, schedule):
        self.sems = [threading.Semaphore(0) for _ in range(n)]
        self.alive = set(range(n))
        self.schedule = list(schedule)
        self.taken = []
        self.cur = None
        self.mutex = threading.Lock()

    def pick(self, me):
        while self.schedule:
            nxt = self.schedule.pop(0)
            if nxt in self.alive:
                return nxt
        if me in self.alive:
            return me
        return min(self.alive) if self.alive else None

    def start(self):
        first = self.pick(None if 0 not in self.alive else 0)
        self.cur = first
        self.sems[first].release()

    def enter(self, me):
        self.sems[me].acquire()

    def yield_point(self, me):
        nxt = self.pick(me)
        self.taken.append(nxt)
        if nxt != me:
            self.cur = nxt
            self.sems[nxt].release()
            self.sems[me].acquire()

    def finish(self, me):
        self.alive.discard(me)
        nxt = self.pick(me)
        if nxt is not None:
            self.cur = nxt
            self.sems[nxt].release()


# ---------------------------------------------------------------------------
# request kinds

KINDS = ['plain', 'body', 'raise', 'nf', 'crash', 'json404', 'form', 'hdrs', 'mutq', 'latin', 'badmp_json', 'signed', 'forged', 'stat_s', 'stat_n', 'rewrite', 'tenant', 'whoami', 'lazy', 'delc_opts', 'delc_plain', 'upload_ct', 'upload_bare', 'account', 'about', 'mount', 'stream', 'chunked', 'badcl', 'gate', 'gate_ok', 'proxied']


class _Lazy:
    def __init__(self, v):
        self.v = v

    def __get__(self, obj, cls=None):
        return 'user-' + self.v


def tenant_of_host(host):
    return {'a.example': 'ta', 'b.example': 'tb'}.get(host)


def make_app(config=None, app=None):
    """An application with one handler per request kind. Handlers report everything they read from
    `request` inside the response body, so comparing responses compares both directions.
    With `app` given (the module-level default application) the handlers are installed on it."""
    from ombott import Ombott, HTTPResponse
    if app is None:
        # every application is a two-tenant application: the domain_map option prefixes the path with the tenant of the Host
        cfg = dict(config or {})
        cfg.setdefault('domain_map', tenant_of_host)
        cfg.setdefault('app_name_header', 'HTTP_X_TENANT_APP')
        app = Ombott(cfg)
    rq, rs = app.request, app.response

    for tenant in ('ta', 'tb'):
        def who(name, tenant=tenant):
            rs.headers['X-Tenant'] = tenant
            rs.set_cookie('tenant', tenant)
            return json.dumps([tenant, name, rq.path, rq.fullpath, rq.headers.get('Host')])
        app.route('/%s/who/<name>' % tenant, callback=who)

    @app.route('/whoami/<name>')
    def whoami(name):
        # what the request object says about the application it belongs to
        return json.dumps([name, rq.app is app, sorted(r for r in rq.app.routes if 'whoami' in r or 'only-here' in r)])

    def seen():
        return {'path': rq.path, 'q': dict(rq.query), 'hdr': rq.headers.get('X-Id'), 'cookies': dict(rq.cookies),
                'method': rq.method, 'qs': rq.query_string}

    @app.route('/plain/<name>')
    def plain(name):
        s = seen()
        rs.status = 201
        rs.headers['X-Out'] = name
        rs.set_cookie('o', name)
        s2 = seen()
        return json.dumps([name, s, s2 == s], sort_keys=True)

    @app.route('/body/<name>', method='POST')
    def body(name):
        s = seen()
        data = rq.body.read().decode('latin1')
        rs.content_type = 'text/plain; charset=UTF-8'
        rs.set_cookie('b', name)
        return json.dumps([name, s, data, rq.content_length], sort_keys=True)

    @app.route('/form/<name>', method='POST')
    def form(name):
        s = seen()
        f = dict(rq.forms)
        p = dict(rq.params)
        rs.headers.append('X-Multi', name + '1')
        rs.headers.append('X-Multi', name + '2')
        return json.dumps([name, s, f, p], sort_keys=True)

    @app.route('/raise/<name>')
    def raiser(name):
        s = seen()
        rs.set_cookie('lost', 'x')
        r = HTTPResponse(json.dumps([name, s], sort_keys=True), 202, X_Raised=name)
        r.set_cookie('r', name)
        raise r

    @app.route('/crash/<name>')
    def crash(name):
        rs.headers['X-Before-Crash'] = name
        rs.set_cookie('c', name)
        raise ValueError('boom ' + name)

    @app.route('/mutq/<name>')
    def mutq(name):
        # a handler may use its parsed query as scratch space
        q = rq.query
        before = json.dumps(sorted((k, v) for k, v in q.items()), default=str)
        q.pop('page', None)
        q['sort'] = 'by-' + name
        if isinstance(q.get('tag'), list):
            q['tag'].append('seen-by-' + name)
        p = rq.params
        return json.dumps([name, before, sorted(p.keys())])

    # application-wide hooks: an access check that refuses by raising, and a hook after it that marks the answers of the
    # guarded area (both look only at paths below /gate/, every other request passes untouched)
    def _gate_check():
        if rq.path.startswith('/gate/') and rq.headers.get('X-Token') != 'let-me-in':
            from ombott import HTTPError
            raise HTTPError(401, 'a token is required for ' + rq.path)

    def _gate_mark():
        if rq.path.startswith('/gate/'):
            rs.headers['X-Frame-Options'] = 'DENY'
    app.add_hook('before_request', _gate_check)
    app.add_hook('before_request', _gate_mark)

    @app.route('/gate/<name>')
    def gate(name):
        return 'the confidential report for ' + name

    # a route hook that annotates the request of a wildcard-free route; static handlers that take whatever keyword arguments arrive
    def _account_hook(prefix):
        rq.url_args['user'] = rq.query.get('q')
    app.on_route('/account', _account_hook)

    @app.route('/account')
    def account(**kw):
        return json.dumps(['account', sorted(kw.items())])

    @app.route('/about')
    def about(**kw):
        return json.dumps(['about', sorted(kw.items()), sorted(rq.url_args.items())])

    @app.route('/mount/<name>')
    def mount(name):
        return json.dumps([name, rq.script_name, rq.fullpath, rq.url])

    @app.route('/stream/<name>')
    def stream(name):
        # a streamed body whose later chunks still look at the request and set nothing new
        yield 'first:' + name + ';'
        yield 'path=' + rq.path + ';who=' + str(rq.headers.get('X-Id')) + ';host=' + str(rq.headers.get('Host')) + ';'
        yield 'q=' + json.dumps(sorted(rq.query.items()))

    @app.route('/chunked/<name>', method='POST')
    def chunked(name):
        raw = rq.body.read()
        return json.dumps([name, raw.decode('latin1'), sorted(rq.forms.items())])

    @app.route('/lazy/<name>')
    def lazy(name):
        # a lazily evaluated extension attribute of the request (descriptor-valued), read twice
        rq.who = _Lazy(name)
        a = rq.who
        hdr = rq.headers.get('X-Id')
        b = rq.who
        rs.headers['X-User'] = str(b)
        return json.dumps([name, a, hdr, b])

    @app.route('/delc_opts/<name>')
    def delc_opts(name):
        rs.delete_cookie('sid', path='/area-' + name, domain=name.lower() + '.example.org')
        return name

    @app.route('/delc_plain/<name>')
    def delc_plain(name):
        rs.delete_cookie('sid')
        return name

    @app.route('/up/<name>', method='POST')
    def up(name):
        # what each uploaded part says about itself
        out = []
        for key, u in sorted(rq.files.items()):
            for one in (u if isinstance(u, list) else [u]):
                hs = sorted([k, str(getattr(v, 'value', v))] for k, v in one.headers.items())
                out.append([key, one.raw_filename, hs, str(getattr(one.content_type, 'value', one.content_type))])
        return json.dumps([name, out])

    @app.route('/mpf/<name>', method='POST')
    def mpf(name):
        # a multipart form that reaches the parser in small pieces: every field and every uploaded byte belongs to this request
        fl = [[k, one.raw_filename, one.file.read().decode('latin1')] for k, u in sorted(rq.files.items()) for one in (u if isinstance(u, list) else [u])]
        return json.dumps([name, sorted([k, v] for k, v in rq.forms.items()), fl])

    # an application constant raised by every request that is not logged in (prepared once, with a multi-valued header and a
    # cookie), and an error handler that adds what belongs to THIS request to the response
    from ombott import HTTPError as _HE
    login = _HE(401, 'login required')
    login.headers.append('WWW-Authenticate', 'Basic realm="site"')
    login.headers.append('WWW-Authenticate', 'Digest realm="site"')
    login.set_cookie('sid', 'gone')

    @app.route('/login401/<name>')
    def login401(name):
        raise login

    @app.error(401)
    def on401(err):
        rs.headers.append('WWW-Authenticate', 'Bearer realm="%s"' % rq.path)
        rs.set_cookie('seen', rq.path)
        return app.default_error_handler(err)

    @app.route('/sf/<name>')
    def sf(name):
        # the module-level helper serving a file (full, ranged, HEAD): the same file for every client
        import ombott as _o
        return _o.static_file('static_sample.txt', root=os.path.join(os.path.dirname(os.path.abspath(__file__)), 'data'))

    @app.route('/crashform/x', method='POST')
    def crashform():
        raise ValueError('cannot use %r' % (rq.forms.get('v'),))

    @app.route('/rewrite/<name>')
    def rewrite(name):
        # a handler that normalises its own request: parsed values are cached first, then the raw keys are rewritten
        q0 = sorted(rq.query.items())
        c0 = rq.cookies.get('c')
        rq['QUERY_STRING'] = 'v=' + name.upper()
        rq['HTTP_COOKIE'] = 'c=' + name.upper() + '-SESSION'
        rs.set_cookie('sid', str(rq.cookies.get('c')))
        return json.dumps([name, q0, c0, sorted(rq.query.items()), rq.cookies.get('c'), sorted(rq.params.keys())])

    @app.route('/signed/<name>')
    def signed(name):
        who = rq.get_cookie('sess', secret='k3y')          # a signed cookie as sent by the client (valid or forged)
        rs.set_cookie('sess', {'user': name}, secret='k3y')
        return json.dumps([name, repr(who)])

    @app.route('/stat_s/<name>')
    def stat_s(name):
        rs.status = '499 Client Closed Request'
        return name

    @app.route('/stat_n/<name>')
    def stat_n(name):
        rs.status = 499
        return name

    @app.route('/listen/<name>')
    def listen(name):
        # an application observing changes of ITS OWN request object
        def cb(request, key, value):
            request.environ['seen-by-listener'] = name
            request.environ['ombott.request.query'] = {'hijacked-by': name}
        rq.on('env_changed', cb)
        rq['X_MARK'] = name
        return json.dumps([name, rq.environ.get('seen-by-listener')])

    @app.route('/assign/<name>')
    def assign(name):
        rq['X_MARK'] = name
        return json.dumps([name, rq.environ.get('seen-by-listener'), sorted(rq.query.items())])

    @app.route('/latin/<name>')
    def latin(name):
        rs.content_type = 'text/plain; charset=latin-1'
        return (x for x in ['caf\xe9 ', name, ' na\xefve'])

    @app.route('/hdrs/<name>')
    def hdrs(name):
        rs.headers['X-A'] = name
        rs.status = '299 Custom ' + name
        del rs.headers['X-A']
        rs.headers['X-B'] = rq.get_cookie('c') or 'none'
        return [name.encode(), b'-', (rq.headers.get('X-Id') or '').encode()]

    @app.route('/redir/<name>')
    def redir(name):
        # the module-level helper, as an application other than the default one would call it
        import ombott as _o
        rs.headers['X-Own'] = name
        rs.set_cookie('own', name)
        _o.redirect('/next/' + name)
    return app


class Dribble(io.BytesIO):
    """A socket-like input: a read returns at most 7 bytes."""

    def read(self, n=-1):
        return super().read(7 if n is None or n < 0 else min(n, 7))


def environ_for(kind, name):
    env = base_environ(HTTP_X_ID='id-' + name, HTTP_COOKIE='c=' + name + '; d=1', HTTP_HOST='host-%s.example' % name,
                       QUERY_STRING='q=' + name + '&r=1')
    if kind == 'plain':
        env['PATH_INFO'] = '/plain/' + name
    elif kind == 'body':
        data = ('payload-' + name).encode() * 3
        env.update(PATH_INFO='/body/' + name, REQUEST_METHOD='POST', CONTENT_LENGTH=str(len(data)))
        env['wsgi.input'] = io.BytesIO(data)
    elif kind == 'bigbody':
        data = ('payload-' + name + '|').encode() * 40          # larger than a small max_memfile_size: spooled to a temporary file
        env.update(PATH_INFO='/body/' + name, REQUEST_METHOD='POST', CONTENT_LENGTH=str(len(data)))
        env['wsgi.input'] = io.BytesIO(data)
    elif kind == 'form':
        data = ('a=' + name + '&b=2&a=3').encode()
        env.update(PATH_INFO='/form/' + name, REQUEST_METHOD='POST', CONTENT_LENGTH=str(len(data)),
                   CONTENT_TYPE='application/x-www-form-urlencoded')
        env['wsgi.input'] = io.BytesIO(data)
    elif kind == 'raise':
        env['PATH_INFO'] = '/raise/' + name
    elif kind == 'nf':
        env['PATH_INFO'] = '/nowhere/' + name
    elif kind == 'json404':
        env['PATH_INFO'] = '/nowhere/' + name
        env['HTTP_ACCEPT'] = 'application/json'
    elif kind == 'crash':
        env['PATH_INFO'] = '/crash/' + name
    elif kind == 'hdrs':
        env['PATH_INFO'] = '/hdrs/' + name
    elif kind == 'redir':
        env['PATH_INFO'] = '/redir/' + name
    elif kind == 'badpath':
        env['PATH_INFO'] = '/plain/\xff' + name
    elif kind == 'badchunk':
        env.update(PATH_INFO='/body/' + name, REQUEST_METHOD='POST', HTTP_TRANSFER_ENCODING='chunked')
        env['wsgi.input'] = io.BytesIO(b'zz\r\n' + name.encode())
    elif kind == 'oversize':
        data = b'x' * 5000 + name.encode()
        env.update(PATH_INFO='/body/' + name, REQUEST_METHOD='POST', CONTENT_LENGTH=str(len(data)))
        env['wsgi.input'] = io.BytesIO(data)
    elif kind == 'mutq':
        env['PATH_INFO'] = '/mutq/' + name
        env['QUERY_STRING'] = 'page=2&tag=x&tag=y'          # the same query string for every client
    elif kind == 'latin':
        env['PATH_INFO'] = '/latin/' + name
    elif kind in ('upload_ct', 'upload_bare'):
        extra = ('Content-Type: application/x-report-%s\r\nX-Token: tok-%s\r\n' % (name, name)) if kind == 'upload_ct' else ''
        data = ('--B\r\nContent-Disposition: form-data; name="f"; filename="%s.bin"\r\n%s\r\nDATA-%s\r\n--B--\r\n' % (name, extra, name)).encode()
        env.update(PATH_INFO='/up/' + name, REQUEST_METHOD='POST', CONTENT_LENGTH=str(len(data)), CONTENT_TYPE='multipart/form-data; boundary=B')
        env['wsgi.input'] = io.BytesIO(data)
    elif kind == 'mpfrag':
        # the same boundary for every client (browsers of one family do that), short reads that cut every delimiter
        data = ('--formboundary\r\nContent-Disposition: form-data; name="first"\r\n\r\n%s-first-value\r\n'
                '--formboundary\r\nContent-Disposition: form-data; name="second"\r\n\r\n%s-second-value\r\n'
                '--formboundary\r\nContent-Disposition: form-data; name="up"; filename="%s.txt"\r\n\r\nfile of %s\r\n-\r\n--form\r\n'
                '--formboundary--\r\n' % (name, name, name, name)).encode()
        env.update(PATH_INFO='/mpf/' + name, REQUEST_METHOD='POST', CONTENT_LENGTH=str(len(data)), CONTENT_TYPE='multipart/form-data; boundary=formboundary')
        env['wsgi.input'] = Dribble(data)
    elif kind == 'mprep':
        # a multipart form with repeated field names (check boxes, several files under one name)
        data = ('--B\r\nContent-Disposition: form-data; name="tag"\r\n\r\nred-%s\r\n--B\r\nContent-Disposition: form-data; name="tag"\r\n\r\nblue-%s\r\n'
                '--B\r\nContent-Disposition: form-data; name="up"; filename="1-%s.txt"\r\n\r\none\r\n'
                '--B\r\nContent-Disposition: form-data; name="up"; filename="2-%s.txt"\r\n\r\ntwo\r\n--B--\r\n' % (name, name, name, name)).encode()
        env.update(PATH_INFO='/mpf/' + name, REQUEST_METHOD='POST', CONTENT_LENGTH=str(len(data)), CONTENT_TYPE='multipart/form-data; boundary=B')
        env['wsgi.input'] = io.BytesIO(data)
    elif kind == 'login401':
        env['PATH_INFO'] = '/login401/' + name
    elif kind in ('sfile', 'sfile_range', 'sfile_head'):
        env['PATH_INFO'] = '/sf/' + name
        if kind == 'sfile_range':
            env['HTTP_RANGE'] = 'bytes=5-%d' % (14 + len(name))
        if kind == 'sfile_head':
            env['REQUEST_METHOD'] = 'HEAD'
    elif kind == 'crashform':
        data = ('v=secret-of-' + name).encode()
        env.update(PATH_INFO='/crashform/x', REQUEST_METHOD='POST', CONTENT_LENGTH=str(len(data)), CONTENT_TYPE='application/x-www-form-urlencoded',
                   QUERY_STRING='same=1', HTTP_HOST='same.example', HTTP_COOKIE='c=1')
        env['wsgi.input'] = io.BytesIO(data)
    elif kind in ('gate', 'gate_ok'):
        env['PATH_INFO'] = '/gate/' + name
        if kind == 'gate_ok':
            env['HTTP_X_TOKEN'] = 'let-me-in'
    elif kind == 'proxied':
        # behind a reverse proxy: Host is the proxy's own name for every client, the site asked for is in X-Forwarded-Host
        env['PATH_INFO'] = '/who/' + name
        env['HTTP_HOST'] = 'proxy.internal'
        env['HTTP_X_FORWARDED_HOST'] = 'a.example' if sum(map(ord, name)) % 2 else 'b.example'
    elif kind == 'account':
        env['PATH_INFO'] = '/account'
    elif kind == 'about':
        env['PATH_INFO'] = '/about'
    elif kind == 'mount':
        env['PATH_INFO'] = '/mount/' + name
        env['SCRIPT_NAME'] = '/shop-' + name.lower()
    elif kind == 'stream':
        env['PATH_INFO'] = '/stream/' + name
    elif kind == 'chunked':
        payload = ('k=' + name + '&data=' + 'z' * 37 + name).encode()
        # the first chunk has a two-digit size (1a), the second a size with leading zeros, the rest one digit each
        wire = b'1a\r\n' + payload[:26] + b'\r\n'
        for n_, i in enumerate(range(26, len(payload), 11)):
            piece = payload[i:i + 11]
            wire += (('%03x' if n_ == 0 else '%x') % len(piece)).encode() + b'\r\n' + piece + b'\r\n'
        wire += b'0\r\n\r\n'
        env.update(PATH_INFO='/chunked/' + name, REQUEST_METHOD='POST', HTTP_TRANSFER_ENCODING='chunked', CONTENT_TYPE='application/x-www-form-urlencoded')
        env['wsgi.input'] = io.BytesIO(wire)
    elif kind == 'badcl':
        env.update(PATH_INFO='/body/' + name, REQUEST_METHOD='POST', CONTENT_LENGTH='5, 5')
        env['wsgi.input'] = io.BytesIO(b'12345')
    elif kind in ('lazy', 'delc_opts', 'delc_plain'):
        env['PATH_INFO'] = '/%s/%s' % (kind, name)
    elif kind == 'tenant':
        env['PATH_INFO'] = '/who/' + name
        env['HTTP_HOST'] = 'a.example' if sum(map(ord, name)) % 2 else 'b.example'
    elif kind in ('stat_s', 'stat_n', 'listen', 'assign', 'rewrite', 'whoami'):
        env['PATH_INFO'] = '/%s/%s' % (kind, name)
    elif kind == 'signed':
        from ombott.common_helpers import cookie_encode
        env['PATH_INFO'] = '/signed/' + name
        env['HTTP_COOKIE'] = 'sess="%s"; c=%s' % (cookie_encode(('sess', {'user': 'prev-' + name}), 'k3y').decode('latin1'), name)
    elif kind == 'forged':
        env['PATH_INFO'] = '/signed/' + name
        env['HTTP_COOKIE'] = 'sess="!c2lnLW9mLSVz?cGF5bG9hZC1vZi0%s"; c=%s' % (name, name)
    elif kind == 'badmp_json':
        # a multipart part without a field name; the error message quotes the offending header line
        data = ('--B\r\nContent-Disposition: form-data; x-owner-token="secret-of-%s"\r\n\r\nv\r\n--B--\r\n' % name).encode()
        env.update(PATH_INFO='/form/' + name, REQUEST_METHOD='POST', CONTENT_LENGTH=str(len(data)), CONTENT_TYPE='multipart/form-data; boundary=B',
                   HTTP_ACCEPT='application/json')
        env['wsgi.input'] = io.BytesIO(data)
    elif kind in ('badchunk_json', 'oversize_json'):
        env = environ_for(kind[:-5], name)
        env['HTTP_ACCEPT'] = 'application/json'
    elif kind == 'm405':
        env.update(PATH_INFO='/plain/' + name, REQUEST_METHOD='DELETE')
    else:
        raise core.MachineryError('unknown kind ' + kind)
    return env


def serve(app, env):
    """-> canonical response (status line, sorted headers, body) or ('ESCAPED', repr)."""
    rec = {}

    def sr(status, headers, exc_info=None):
        rec.setdefault('n', 0)
        rec['n'] += 1
        rec['status'], rec['headers'] = status, list(headers)
    try:
        out = app(env, sr)
        body = b''.join(out)
        close = getattr(out, 'close', None)
        if close:
            close()
    except Exception as e:   # noqa
        return ['ESCAPED', type(e).__name__, str(e)[:200]]
    return [rec.get('n'), rec.get('status'), sorted(map(list, rec.get('headers', []))), body.decode('latin1')]


class EagerIds:
    """The address of an object is the environment's choice: the language promises only that two objects alive at the same
    time have different ids.  This chooser is the environment action "hand out the smallest number no live object holds",
    i.e. a freed address is reused at once -- legal for any allocator, and the worst case for code that keeps something under
    id(x) longer than x lives.  Installed as the name `id` in the globals of every ombott module (module globals shadow the
    builtin), removed afterwards.  Objects that cannot be weakly referenced keep their real id, moved out of the small range."""

    def __init__(self):
        import builtins
        self._real = builtins.id
        self.live = {}
        self.free = []
        self.next = 1
        self.handed = 0
        self.reused = 0
        self._refs = {}

    def __call__(self, obj):
        import heapq
        import weakref
        rid = self._real(obj)
        s = self.live.get(rid)
        if s is not None:
            return s
        try:
            self._refs[rid] = weakref.ref(obj, lambda _r, rid=rid: self._release(rid))
        except TypeError:
            return (1 << 62) + rid
        if self.free:
            s = heapq.heappop(self.free)
            self.reused += 1
        else:
            s = self.next
            self.next += 1
        self.live[rid] = s
        self.handed += 1
        return s

    def _release(self, rid):
        import heapq
        self._refs.pop(rid, None)
        s = self.live.pop(rid, None)
        if s is not None:
            heapq.heappush(self.free, s)

    def install(self):
        import sys
        self._mods = [m for n, m in list(sys.modules.items()) if (n == 'ombott' or n.startswith('ombott.')) and m is not None]
        for m in self._mods:
            m.__dict__['id'] = self
        return self

    def remove(self):
        for m in self._mods:
            m.__dict__.pop('id', None)


def fresh_config(config=None):
    """A configuration whose error responses are not the process-wide shared objects of DefaultConfig.errors_map."""
    from ombott import HTTPError
    from ombott.request_pkg import errors as rqe
    cfg = dict(config or {})
    # same statuses and texts as the defaults (whatever their wording is), but objects of this configuration's own
    from ombott.ombott import DefaultConfig
    cfg['errors_map'] = {cls: HTTPError(e.status_code, e.body) for cls, e in DefaultConfig.errors_map.items()}
    for cls, (code, text) in {rqe.RequestError: (400, 'Bad request'), rqe.BodySizeError: (413, 'Request entity too large'),
                              rqe.BodyParsingError: (400, 'Error while parsing chunked transfer body')}.items():
        cfg['errors_map'].setdefault(cls, HTTPError(code, text))
    return cfg


def solo(kind, name, config=None):
    return serve(make_app(fresh_config(config)), environ_for(kind, name))


def solo_fresh_interpreter(kind, name):
    """The same request served by a fresh application in a fresh interpreter: the reference for arrangements in which
    computing the reference in this process would itself be the 'first use' that hides (or causes) the interference."""
    import subprocess
    code = ('import sys, json; sys.path.insert(0, %r); from harness import core; core.setup_repo_path(); '
            'from harness.checks import lifelib as L; print("REF" + json.dumps(L.solo(%r, %r)))' % (core.VERIF, kind, name))
    env = dict(__import__('os').environ, VERIF_REPO=core.REPO, PYTHONHASHSEED='0')
    p = subprocess.run([sys.executable, '-c', code], capture_output=True, text=True, env=env, timeout=120)
    for line in p.stdout.splitlines():
        if line.startswith('REF'):
            return json.loads(line[3:])
    raise core.MachineryError('reference interpreter failed: %s' % (p.stdout + p.stderr)[-600:])


def reference_table(kinds, names, config=None, isolate=3):
    """{(kind, name): response of a fresh application}, each KIND computed in an interpreter of its own in which no other
    kind of request has ever been served: process-wide state that one kind of request leaves behind (module-level tables,
    caches keyed by the first use) cannot colour the reference of another kind."""
    import subprocess

    def one(kind, these):
        code = ('import sys, json; sys.path.insert(0, %r); from harness import core; core.setup_repo_path(); '
                'from harness.checks import lifelib as L; '
                'print("REF" + json.dumps([[n, L.solo(%r, n, %r)] for n in %r]))' % (core.VERIF, kind, config, list(these)))
        env = dict(__import__('os').environ, VERIF_REPO=core.REPO, PYTHONHASHSEED='0')
        p = subprocess.run([sys.executable, '-c', code], capture_output=True, text=True, env=env, timeout=300)
        for line in p.stdout.splitlines():
            if line.startswith('REF'):
                return kind, json.loads(line[3:])
        raise core.MachineryError('reference interpreter for kind %s failed: %s' % (kind, (p.stdout + p.stderr)[-600:]))
    def single(kind, name):
        # one interpreter for one request: not even an earlier request of the same kind has been served in it
        k, rows = one(kind, [name])
        return k, rows
    table = {}
    names = list(names)
    jobs = [(lambda k=k, n=n: single(k, n)) for k in kinds for n in names[:isolate]]
    jobs += [(lambda k=k: one(k, names[isolate:])) for k in kinds if names[isolate:]]
    for kind, rows in core.parallel(jobs, max_workers=12):
        for n, resp in rows:
            table[(kind, n)] = resp
    return table


def run_threads(app_of_thread, reqs, schedule, acc=None, line_files=None, record=True):
    """Serve reqs[i] = (kind, name) on thread i (application app_of_thread[i]) under a forced schedule.
    Returns (responses, accessor events, schedule actually taken)."""
    n = len(reqs)
    baton = Baton(n, schedule)
    rec = Recorder(acc, baton, line_files) if acc is not None else None
    b0 = rec.bound0() if rec is not None else {}
    res = [None] * n
    errs = []

    def worker(i):
        try:
            if rec is not None:
                rec.tids[threading.get_ident()] = i
            baton.enter(i)
            if rec is not None:
                sys.settrace(rec.global_trace)
            try:
                seq = reqs[i] if isinstance(reqs[i], list) else [reqs[i]]
                out = []
                for rq in seq:
                    if rec is not None:
                        rec.events.append({'t': i, 'ev': 'req', 'cls': '', 'inst': 0})
                    if callable(rq):
                        out.append(rq())
                    else:
                        out.append(serve(app_of_thread[i], environ_for(*rq)))
                res[i] = out if isinstance(reqs[i], list) else out[0]
            finally:
                sys.settrace(None)
        except BaseException as e:   # noqa
            errs.append(repr(e))
        finally:
            baton.finish(i)
    ths = [threading.Thread(target=worker, args=(i,), daemon=True) for i in range(n)]
    for t in ths:
        t.start()
    baton.start()
    for t in ths:
        t.join(60)
        if t.is_alive():
            raise core.MachineryError('scheduler deadlock/timeout (schedule %s)' % schedule[:40])
    if errs:
        raise core.MachineryError('worker failed: %s' % errs[:2])
    evs = rec.finish_events() if rec is not None else []
    for e in evs:
        out_e = e
        out_e.setdefault('own', 0); out_e.setdefault('hit', 0); out_e.setdefault('val', 0); out_e.setdefault('prop', '')
    return res, {'ev': evs, 'bound0': b0, '_rec': rec}, baton.taken
