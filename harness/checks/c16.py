"""C16: static_file never serves a file outside its root. See specs/Static.tla (Locate / PathInv)."""
import itertools
import json
import os
import random
import sys
import tempfile

from harness import core
from harness.checks import staticlib as sl

_opened = []
_base = [None]
_hooked = [False]


_by_thread = {}


def _audit(ev, args):
    if ev == 'open' and _base[0] and isinstance(args[0], str):
        # a path handed to the OS with dot-dot segments still in it is resolved by the OS physically (through directory links)
        p = os.path.realpath(args[0]) if '..' in args[0].split(os.sep) else os.path.abspath(args[0])
        if p.startswith(_base[0] + os.sep):
            _opened.append(p)
            import threading
            _by_thread.setdefault(threading.get_ident(), []).append(p)


def s2l(s):
    return [ord(c) for c in s]


def run(chk):
    rng = random.Random(chk.seed * 13 + 16)
    thorough = chk.tier == 'thorough'
    ws = core.tla_workspace()
    r = core.run_tlc(ws, 'MC_Static', 'MC_Static_path.cfg', allow_violation=True)
    chk.add_tlc(r, 'exhaustive MC_Static path (segment lists x root spellings)')
    if not r.ok:
        raise core.MachineryError('model-level: %s\n%s' % (r.violated, r.out[-1500:]))
    chk.exhaustive = True
    base = os.path.realpath(tempfile.mkdtemp(prefix='ombverif-c16-'))
    core._scratch.append(base)
    b = os.path.join(base, 'b')
    for d in ('b/root/sub', 'b/rootx', 'b/root/sub/..a', 'b/root-old', 'b/root.bak', 'b/ROOT', 'b/Root/sub', 'b2/root/sub', 'B/root',
              'b/site.v1/pub', 'b/site-v1', 'b/siteXv1', 'b/s+te.v1', 'b/site.v1x'):
        os.makedirs(os.path.join(base, d))
    files = ['b/root/in', 'b/root/sub/deep', 'b/rootx/sib', 'b/top', 'b/root/sub/..a/x', 'b/root-old/o', 'b/root.bak/k', 'b/rootsecret', 'secret',
             'b/ROOT/in', 'b/ROOT/caps', 'b/Root/sub/deep', 'b2/root/only2', 'b2/root/sub/deep', 'B/root/in',
             'b/site.v1/in', 'b/site.v1/pub/deep', 'b/site-v1/data', 'b/siteXv1/data', 'b/s+te.v1/data', 'b/site.v1x/data']
    for f in files:
        with open(os.path.join(base, f), 'w') as fh:
            fh.write(f)
    # a directory link inside the root that leads to a directory elsewhere (a shared assets folder)
    os.makedirs(os.path.join(base, 'vault', 'pub'))
    for f in ('vault/secret.txt', 'vault/pub/asset'):
        with open(os.path.join(base, f), 'w') as fh:
            fh.write(f)
    os.symlink(os.path.join(base, 'vault', 'pub'), os.path.join(b, 'root', 'shared'))
    # a backup beside the root that repeats the root's absolute path (rsync -R, cp --parents), and a root whose own name
    # contains the path-list separator, next to a sibling named like its first half
    planted = os.path.join(b, 'backup', os.path.join(b, 'root').lstrip('/'))
    os.makedirs(planted)
    os.makedirs(os.path.join(b, 'root:v2'))
    for f in (os.path.join(planted, 'planted'), os.path.join(b, 'root:v2', 'own')):
        with open(f, 'w') as fh:
            fh.write(f)
        files.append(os.path.relpath(f, base))
    # a directory whose NAME begins with a tilde (relative root '~', '~/pub'), while the account's home directory holds decoys
    for d in ('b/~/pub', 'home/pub'):
        os.makedirs(os.path.join(base, d))
    for f in ('b/~/in', 'b/~/pub/in', 'home/in', 'home/secret', 'home/pub/in', 'home/pub/secret'):
        with open(os.path.join(base, f), 'w') as fh:
            fh.write(f)
    os.environ['HOME'] = os.path.join(base, 'home')
    files += ['b/~/in', 'b/~/pub/in']
    _base[0] = base
    if not _hooked[0]:
        sys.addaudithook(_audit)
        _hooked[0] = True
    os.chdir(b)
    file_segs = [f.split('/') for f in files if f.startswith(('b/', 'b2/', 'B/'))]
    roots = [('b/root', os.path.join(b, 'root')), ('b/root/', os.path.join(b, 'root') + '/'), ('b/root/.', os.path.join(b, 'root', '.')),
             ('b/rootx/../root', os.path.join(b, 'rootx', '..', 'root')), ('rel root', 'root'), ('rel ./root/', './root/'),
             ('b/root//', os.path.join(b, 'root') + '//')]
    segs = ['in', 'sub', 'deep', '.', '..', '', 'rootx', 'sib', 'top', 'root', '..a', 'x', 'rootsecret', 'root-old', 'o', 'root.bak', 'k', 'ROOT', 'Root', 'caps', 'only2', 'B',
            '..\\..', '..\\rootx', 'secret', b.lstrip('/'), base.lstrip('/')]
    seps = ['/', '\\', '//']
    leads = ['', '/', '../', '/..//', '\\', '..\\']
    recs = []
    names = []
    for n in (1, 2, 3):
        for ss in itertools.product(segs, repeat=n):
            names.append(ss)
    if not thorough:
        names = [n for n in names if len(n) <= 2] + rng.sample([n for n in names if len(n) == 3], 1500)
    # every decoy beside/above the root reached by the shortest dot-dot route, always tried (with every root spelling below)
    curated = [('..', 'ROOT', 'caps'), ('..', 'ROOT', 'in'), ('..', 'Root', 'sub', 'deep'), ('..', '..', 'B', 'root', 'in'), ('sub', '..', '..', 'ROOT', 'caps'),
               ('..', 'rootx', 'sib'), ('..', 'root-old', 'o'), ('..', 'root.bak', 'k'), ('..', 'rootsecret'), ('..', 'top'), ('..', '..', 'secret'),
               ('..', '..', 'b2', 'root', 'only2'), ('sub', '..', '..', 'top'), ('.', '..', 'rootx', 'sib'), ('', '..', 'top')]
    names = [c for c in curated for _ in range(len(roots))] + names
    # names that already carry the root's own absolute path (as produced by glob / os.walk) and then climb out of it
    rabs = os.path.join(b, 'root')
    verbatim = [rabs + '/../top', rabs + '/sub/../../top', rabs + '/../rootx/sib', rabs + '/../../secret', rabs + '/../rootsecret', rabs + '/./../ROOT/caps',
                rabs + '/in', rabs + '/sub/deep', rabs + '//../top', rabs + '/../root/in', rabs.lstrip('/') + '/../top', rabs + '/..', rabs + 'x/sib', rabs + 'secret']
    # roots that are not (or no longer) directories: a missing directory, a plain file, a directory below a plain file
    odd_roots = [('missing dir', os.path.join(b, 'missing')), ('missing dir/', os.path.join(b, 'nodir') + '/'), ('plain file as root', os.path.join(b, 'top')),
                 ('below a file', os.path.join(b, 'top', 'x')), ('missing below root', os.path.join(b, 'root', 'gone')), ('rel missing', 'missing')]
    odd_names = [('top',), ('rootsecret',), ('in',), ('root', 'in'), ('rootx', 'sib'), ('sub', 'deep'), ('..', 'top'), ('deep',), ('b', 'top'), ('',), ('.',)]
    # a root whose own path contains characters that mean something to a pattern language ('.', '+'), siblings that differ
    # exactly there; and relative roots that resolve to the working directory or an ancestor of it
    meta_root = ('b/site.v1', os.path.join(b, 'site.v1'))
    meta_names = ['in', 'pub/deep', '../site-v1/data', '../siteXv1/data', '../s+te.v1/data', '../site.v1x/data', 'pub/../../site-v1/data',
                  '../site.v1/in', '..\\site-v1\\data', '../top']
    rel_roots = [('rel .', '.', os.path.join(b, 'root')), ('rel ..', '..', os.path.join(b, 'root', 'sub')), ('rel empty', '', os.path.join(b, 'root')),
                 ('rel sub/..', 'sub/..', os.path.join(b, 'root')), ('rel ../..', '../..', os.path.join(b, 'root', 'sub', '..a')), ('rel ./', './', os.path.join(b, 'root', 'sub'))]
    rel_names = ['in', 'deep', 'sub/deep', '../top', '../in', '../../top', '../rootx/sib', '../../rootx/sib', '../../../secret', '..', '../sub/deep', 'x']
    jobs = []
    for nm in ('shared/../secret.txt', 'shared/../../vault/secret.txt', 'shared/./../secret.txt', 'sub/../shared/../secret.txt', 'shared/../in', 'shared/..'):
        for rt in roots[:3]:
            jobs.append((nm, rt))
    for nm in meta_names:
        jobs.append((nm, meta_root))
    for nm in ('../backup/' + os.path.join(b, 'root').lstrip('/') + '/planted', 'sub/../../backup/' + os.path.join(b, 'root').lstrip('/') + '/planted',
               '/../backup' + os.path.join(b, 'root') + '/planted', '../backup/' + os.path.join(b, 'root').lstrip('/') + '/../root/planted'):
        for rt in roots:
            jobs.append((nm, rt))
    for nm in ('own', 'in', 'sub/deep', '../root/in', '../root:v2/own', '../top'):
        for rt in (('colon root', os.path.join(b, 'root:v2')), ('colon root/', os.path.join(b, 'root:v2') + '/'), ('rel colon root', 'root:v2', b)):
            jobs.append((nm, rt))
    for rname, rroot, rcwd in rel_roots:
        for nm in rel_names:
            jobs.append((nm, (rname, rroot, rcwd)))
    for rt in (('rel tilde', '~', b), ('rel tilde/', '~/', b), ('rel tilde/pub', '~/pub', b), ('rel ./tilde', './~', b)):
        for nm in ('in', 'secret', 'pub/in', 'pub/secret', '../top', '../home/secret'):
            jobs.append((nm, rt))
    # names that are still percent-encoded when they reach static_file (a gateway that encodes twice, a handler that forwards
    # the raw path): '%2e%2e' is an ordinary file name, never a way up
    for nm in ('%2e%2e/top', '..%2ftop', '%2e%2e%2ftop', '%2E%2E/top', 'sub/%2e%2e/%2e%2e/top', '%2e%2e/rootx/sib', '%2e%2e/%2e%2e/secret',
               '..%5ctop', '%2e%2e/rootsecret', 'sub%2f..%2f..%2ftop', '%2e%2e/ROOT/caps', '%2fetc%2fpasswd', 'in%00', '%2e/in'):
        for rt in roots:
            jobs.append((nm, rt))
    for ss in names:
        for sep in (seps if thorough else [rng.choice(seps)]):
            for lead in (leads if thorough and len(ss) < 3 else [rng.choice(leads)]):
                jobs.append((lead + sep.join(ss), None))
    for v in verbatim:
        for rt in roots:
            jobs.append((v, rt))
    for ss in odd_names:
        for rt in odd_roots:
            jobs.append(('/'.join(ss), rt))
    for name, fixed_root in jobs:
        if True:
            if True:
                fr = fixed_root or (rng.choice(roots) if not thorough else roots[len(recs) % len(roots)])
                rname, root = fr[0], fr[1]
                forced_cwd = fr[2] if len(fr) > 2 else None
                # relative roots are resolved against the CURRENT directory of each call: move between two trees that both have ./root
                if forced_cwd is not None:
                    cwd = forced_cwd
                    os.chdir(cwd)
                elif not os.path.isabs(root):
                    cwd = rng.choice([b, os.path.join(base, 'b2')])
                    os.chdir(cwd)
                else:
                    cwd = b
                del _opened[:]
                # sometimes as a conditional request with a date in the future: revalidation must not answer for outside names
                ims = 'Fri, 01 Jan 2100 00:00:00 GMT' if rng.random() < 0.25 else None
                status, headers, chunks, errs = sl.serve(name, root, ims=ims)
                opened = list(_opened)
                # segment view for the model (POSIX: only '/' separates; strip('/\\') first)
                stripped = name.strip('/\\')
                root_abs = os.path.abspath(root)
                recs.append({'kind': 'path', 'rootSegs': [s for s in (root if os.path.isabs(root) else os.path.join(cwd, root)).split('/')][1:],
                             'nameSegs': stripped.split('/'), 'files': [base.split('/')[1:] + f for f in file_segs],
                             'status': status, 'ims': ims is not None, 'rootNorm': s2l(root_abs), 'opened': [s2l(p) for p in opened], 'name': name, 'root': root})
                chk.count(1, ('path', name, rname))
    # two requests served concurrently by two threads (one for a file inside the root, one for a name outside it, or for another
    # root): the second is served completely at a swept source line of the first
    import threading
    from harness.checks import lifelib as L
    os.chdir(b)
    lf = (os.path.join(core.REPO, 'ombott', 'static_stream'),)
    acc16 = L.Accessors()      # (only its tracer is used here: every source line of static_stream is a pre-emption point)
    root_a = os.path.join(b, 'root')
    pairs = [(('in', root_a), ('../top', root_a)), (('sub/deep', root_a), ('../rootx/sib', root_a)), (('in', root_a), ('only2', os.path.join(base, 'b2', 'root')))]

    def mk(name, root, box):
        def go():
            _by_thread.pop(threading.get_ident(), None)
            st, hd, chunks, errs = sl.serve(name, root)
            box.update(status=st, body=b''.join(chunks), opened=list(_by_thread.get(threading.get_ident(), [])))
            return st
        return go
    for (na, ra), (nb, rb) in pairs:
        box0 = {}
        _, _, taken0 = L.run_threads([None, None], [mk(na, ra, box0), mk(nb, rb, {})], [0] * 5000, acc16, lf)
        n0 = max(1, sum(1 for t in taken0 if t == 0))
        for x in range(1, n0 + 1, 1 if thorough else max(1, n0 // 40)):
            ba, bb = {}, {}
            L.run_threads([None, None], [mk(na, ra, ba), mk(nb, rb, bb)], [0] * x + [1] * 5000 + [0] * 5000, acc16, lf)
            for (nm, rt, bx) in ((na, ra, ba), (nb, rb, bb)):
                root_abs = os.path.abspath(rt)
                recs.append({'kind': 'path', 'rootSegs': rt.split('/')[1:], 'nameSegs': nm.strip('/\\').split('/'),
                             'files': [base.split('/')[1:] + f for f in file_segs], 'status': bx.get('status', 0), 'ims': False,
                             'rootNorm': s2l(root_abs), 'opened': [s2l(p) for p in bx.get('opened', [])], 'name': nm + ' (concurrent)', 'root': rt})
                chk.count(1, ('concurrent', nm, rt, x))
    chk.sample({'name': recs[100]['name'], 'root': recs[100]['root'], 'status': recs[100]['status'], 'opened': [''.join(map(chr, o)) for o in recs[100]['opened']]})
    missing, fails = core.validate_records(chk, 'StaticTrace', recs, 'C16',
                                           strip=lambda t: {k: v for k, v in t.items() if k not in ('name', 'root')})
    for i, cl in sorted(fails.items()):
        t = recs[i]
        chk.violation('C16: %s fails: static_file(%r, root=%r) -> %s, opened %s'
                      % (sorted(cl), t['name'], t['root'], t['status'], [''.join(map(chr, o)) for o in t['opened']]),
                      {'name': t['name'], 'root_relative_to_base': os.path.relpath(os.path.abspath(t['root']), base), 'status': t['status'],
                       'clauses': sorted(cl)})
    drift = sorted(set(missing) - set(fails))
    if drift:
        t = recs[drift[0]]
        chk.drift('C16: %d records whose status differs from the segment-level model (first: name %r root %r -> %s)'
                  % (len(drift), t['name'], t['root'], t['status']))
    os.chdir('/')
    chk.extra['assumptions'] = ['only opens of paths inside the temporary base directory are judged (interpreter/mimetypes reads are not)',
                                'os.path is trusted; symbolic links are out of scope; POSIX path semantics (backslash is an ordinary character)']
    chk.extra['rule'] = 'names = 1..3 segments from a 22-element set (dot-dot, empty, siblings sharing the root prefix, absolute prefixes, backslash forms) x separators x leading forms x 7 root spellings, on a real tree with decoys'


def replay(path):
    print(json.dumps(json.load(open(path))['case'], indent=1))
    return 1
