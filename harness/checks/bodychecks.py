"""C04 / C05 / C13: body reader. See DESIGN.md section 6 and specs/Body.tla."""
import json
import random

from harness import core
from harness.checks import bodylib as bl

CLAUSES = {
    'C04': {'ClExact', 'ClNoOverRead', 'Outcome', 'ClOutcome', 'Spooling', 'Presentations'},
    'C05': {'LegalAccepted', 'TruncRejected', 'RefExact', 'Outcome', 'Presentations'},
    'C13': {'LimitVerdict', 'ReadBound', 'Spooling', 'Outcome'},
}
MC = {
    'C04': [('MC_Body', 'MC_Body_cl.cfg')],
    'C05': [('MC_Body', 'MC_Body_legal.cfg'), ('MC_Body', 'MC_Body_corrupt.cfg')],
    'C13': [('MC_Body', 'MC_Body_cl_limits.cfg'), ('MC_Body', 'MC_Body_limits.cfg')],
}
COVER = {'C04': ['cl'], 'C05': ['legal', 'corrupt'], 'C13': ['cl_limits', 'limits']}


def rand_bytes(rng, n):
    return bytes(rng.getrandbits(8) for _ in range(n)) if n < 4096 else rng.randbytes(n)


def gen_cl_small(rng, n, limits=False):
    out = []
    for _ in range(n):
        d = rng.choice([0, 1, 2, 3, 5, 8, 13, 21, 40, 64, 100, rng.randint(0, 300)])
        cl = rng.choice([d, d, d, max(0, d - rng.randint(1, 5)), d + rng.randint(1, 9), 0, -1])
        buf = rng.choice([1, 2, 3, 4, 7, 8, 16, 64, 1000])
        mb = -1
        if limits or rng.random() < 0.15:
            mb = rng.choice([0, 1, d - 1, d, d + 1, max(0, d // 2), d + 50, -1])
            mb = max(mb, -1)
        style = rng.choice(['full', 'short', 'short', 'byte', 'plain'])
        data = rand_bytes(rng, d)
        if rng.random() < 0.12:
            # crash point: no temporary file can be created while this body is read
            t = bl.run_real('cl', data, cl, buf, mb, rng=rng, short_p=rng.choice([0.3, 1.0]), ctype=rng.choice(bl.CTYPES), fault=True)
        elif style == 'short' and mb == -1 and 0 <= cl <= buf and d <= buf and rng.random() < 0.4:
            # the handler looks at the parsed views (forms, params) first, then at the raw body: the same bytes
            data = bytes(rng.choice(b'abc=&+12') for _ in range(d))         # (a form the parsed views accept)
            t = bl.run_real('cl', data, cl, buf, mb, rng=rng, short_p=rng.choice([0.3, 1.0]),
                            ctype=rng.choice(['application/x-www-form-urlencoded', 'text/plain', 'application/x-www-form-urlencoded; charset=utf-8']), via='views')
        elif style == 'plain':
            t = bl.run_real('cl', data, cl, buf, mb, ctype=rng.choice(bl.CTYPES), plain=rng.choice([0, 0, 3, 40]))
        elif style == 'full':
            t = bl.run_real('cl', data, cl, buf, mb, ctype=rng.choice(bl.CTYPES))
        elif style == 'byte':
            t = bl.run_real('cl', data, cl, buf, mb, schedule=[1] * (d + 2), ctype=rng.choice(bl.CTYPES))
        else:
            t = bl.run_real('cl', data, cl, buf, mb, rng=rng, short_p=rng.choice([0.2, 0.6, 1.0]), ctype=rng.choice(bl.CTYPES),
                            via=rng.choice([None, None, None, 'stream']), in_thread=rng.random() < 0.25)
        out.append(t)
    return out


def gen_cl_large(rng, n, limits=False):
    out = []
    for _ in range(n):
        d = rng.choice([1000, 4096, 65536, 100 * 1024, 100 * 1024 + 1, 300 * 1024, rng.randint(1000, 200000)])
        cl = rng.choice([d, d, d - rng.randint(1, 999), d + rng.randint(1, 5000)])
        buf = rng.choice([512, 1024, 8192, 65536, 100 * 1024, d, d - 1, d + 1])
        buf = max(buf, d // 1500 + 1)      # keep the event log below ~3000 entries
        mb = -1
        if limits:
            mb = rng.choice([d - 1, d, d + 1, d // 2, 100 * 1024, 1024 * 1024])
        data = rand_bytes(rng, d)
        t = bl.run_real('cl', data, cl, buf, mb, rng=rng if rng.random() < 0.7 else None, short_p=0.3, ctype=rng.choice(bl.CTYPES),
                        via=rng.choice([None, None, 'stream']))
        out.append(t)
    return out


def gen_chunked(rng, n, limits=False, big=False):
    """Legal encodings, their prefixes, single-byte framing corruptions, random junk."""
    out = []
    for _ in range(n):
        if big:
            plen = rng.choice([5000, 70000, 200 * 1024, rng.randint(1000, 100000)])
            buf = rng.choice([4096, 65536, 100 * 1024])
        else:
            plen = rng.choice([0, 1, 2, 3, 5, 9, 16, 17, 40, rng.randint(0, 200)])
            buf = rng.choice([8, 9, 12, 16, 64, 1000])
        payload = rand_bytes(rng, plen)
        enc, sizes = bl.encode_chunked(rng, payload, buf)
        mb = -1
        if limits:
            mb = max(-1, rng.choice([0, plen - 1, plen, plen + 1, plen // 2, plen + 100]))
        kind = rng.choice(['legal', 'legal', 'prefix', 'corrupt', 'junk']) if not (limits or big) else 'legal'
        if not limits and kind == 'legal' and rng.random() < 0.2:
            # a configured maximum that the PAYLOAD just fits (the framing around it does not count)
            mb = plen + rng.choice([0, 0, 1, 3])
        inp, expect = enc, payload
        if kind == 'prefix':
            inp = enc[:rng.randint(0, len(enc) - 1)]
        elif kind == 'corrupt':
            # substitute one framing byte (positions outside payload stretches)
            fr = []
            pos = 0
            p2 = 0
            # recompute framing positions by walking the encoder's output
            i = 0
            for k in sizes + [0]:
                e = enc.index(b'\r\n', i)
                fr.extend(range(i, e + 2))
                i = e + 2
                if k:
                    i += k
                    fr.extend([i, i + 1])
                    i += 2
            fr.extend(range(i, len(enc)))
            if fr:
                j = rng.choice(fr)
                c = rng.choice(b'01aF;\r\n -+x_g')
                inp = enc[:j] + bytes([c]) + enc[j + 1:]
        elif kind == 'junk':
            alpha = b'01aF;\r\n -+x_g\r\n\r\n12'
            inp = bytes(rng.choice(alpha) for _ in range(rng.randint(0, 14)))
        sched = rng.choice(['full', 'short', 'short', 'byte'])
        cl = rng.choice([-1, -1, 0, 1, plen, plen // 2, len(inp)])
        if sched == 'full':
            t = bl.run_real('chunked', inp, cl, buf, mb, kind=kind, expect=expect, ctype=rng.choice(bl.CTYPES))
        elif sched == 'byte':
            t = bl.run_real('chunked', inp, cl, buf, mb, schedule=[1] * (len(inp) + 2), kind=kind, expect=expect, ctype=rng.choice(bl.CTYPES))
        elif kind != 'legal' and rng.random() < 0.5:
            # the handler looks at the parsed views (forms, params, json) before the raw body: a framing error is a client error there too
            t = bl.run_real('chunked', inp, cl, buf, mb, rng=rng, short_p=rng.choice([0.3, 1.0]), kind=kind, expect=expect,
                            ctype=rng.choice([None, 'application/x-www-form-urlencoded', 'text/plain', 'application/json']), via='views')
        else:
            t = bl.run_real('chunked', inp, cl, buf, mb, rng=rng, short_p=rng.choice([0.3, 1.0]), kind=kind, expect=expect, ctype=rng.choice(bl.CTYPES),
                            via=rng.choice([None, None, None, 'stream']), in_thread=rng.random() < 0.3)
        if kind == 'legal' and mb >= 0:
            # how much PAYLOAD the reader had taken from the stream when it answered (framing bytes not counted)
            got = sum(e[1] for e in t['ev'])
            pos = used = 0
            for k in sizes:
                ds = enc.index(b'\r\n', pos) + 2
                used += max(0, min(got, ds + k) - ds)
                pos = ds + k + 2
            t['payload_consumed'] = used
        out.append(t)
    return out


def gen_multipart_limits(rng, n):
    """The size limit counts every byte of the body, whatever the media type makes of it: small well-formed multipart forms
    followed by a long epilogue (and forms whose bulk is inside a part), Content-Length framing, limits around the form size."""
    from harness.checks import mplib
    out = []
    for _ in range(n):
        b = rng.choice([b'B', b'Bx', b'--'])
        fields = [{'name': 'a', 'value': 'v' * rng.choice([0, 3, 40])}]
        if rng.random() < 0.4:
            fields.append({'name': 'f', 'filename': 'u.bin', 'ctype': 'application/octet-stream', 'data': b'D' * rng.choice([0, 10, 300])})
        form = mplib.encode_form(fields, b, epilogue=b'')
        epi = rng.choice([b'', b'\r\n', b'\r\n' + b'x' * rng.choice([30, 400, 3000]), b'e' * rng.choice([100, 1500])])
        body = form + epi
        buf = rng.choice([16, 64, 256, 1000])
        mb = max(0, rng.choice([len(form) - 5, len(form), len(form) + 1, len(form) + 20, len(body) - 1, len(body), len(body) + 1, len(body) // 2]))
        cl = len(body)
        out.append(bl.run_real('cl', body, cl, buf, mb, rng=rng, short_p=rng.choice([0.3, 1.0]),
                               ctype='multipart/form-data; boundary=' + b.decode()))
    return out


def big_chunked_direct(chk, traces, clauses):
    """Executions too large for content-carrying TLC validation: the implementation-independent
    part of the oracle only (plain equality with the encoder's payload)."""
    for t in traces:
        ok = True
        if t['maxBody'] < 0:
            ok = t['phase'] == 'done' and t['out'] == t['expect']
            cl = 'LegalAccepted'
        else:
            over = len(t['expect']) > t['maxBody']
            ok = (t['phase'] == 'e413') if over else (t['phase'] == 'done' and t['out'] == t['expect'])
            cl = 'LimitVerdict'
        chk.count(1, ('bigchunk', len(t['inp']), t['buf'], t['maxBody'], len(t['ev'])))
        if not ok and cl in clauses:
            c = bl.case_of(t)
            c['clauses'] = [cl]
            chk.violation('large legal chunked body (%d payload bytes, buf %d): outcome %s, body %s'
                          % (len(t['expect']), t['buf'], t['phase'], 'differs' if t['out'] != t['expect'] else 'equal'), c)


def run(chk, prop):
    rng = random.Random(chk.seed * 1000003 + int(prop[1:]))
    thorough = chk.tier == 'thorough'
    clauses = CLAUSES[prop]
    ws = core.tla_workspace()
    # 1. design level: exhaustive small scope
    for mod, cfg in MC[prop]:
        r = core.run_tlc(ws, mod, cfg, allow_violation=True, coverage=True)
        chk.add_tlc(r, 'exhaustive ' + cfg)
        if not r.ok:
            raise core.MachineryError('model-level invariant violated in %s (%s): the specification of the '
                                      'repaired mechanism is inconsistent\n%s' % (cfg, r.violated, r.out[-1500:]))
    chk.exhaustive = True
    if prop in ('C04', 'C13'):
        # unbounded: Apalache proves that IndInv is an inductive invariant of the numeric Content-Length reader and implies the
        # properties, for ALL data lengths, Content-Lengths, buffers and limits (MC_Body's NumRefines ties the numeric machine
        # to the byte-level model; the traces tie it to the code)
        obligations = [('base: Init => IndInv', ['--init=ApaInit', '--inv=IndInv', '--length=0', '--next=NNext']),
                       ('step: IndInv /\\ Next => IndInv\'', ['--init=IndInit', '--inv=IndInv', '--length=1', '--next=NNext']),
                       ('IndInv => NExact /\\ NNoOverRead /\\ NSizeLimit /\\ NSpooling', ['--init=IndInit', '--inv=Safety', '--length=0', '--next=NNext'])]

        def apa(ob):
            def job():
                w = core.tla_workspace()
                return ob[0], core.run_apalache(w, 'BodyClNumApa', ob[1])
            return job
        done = 0
        for name, (ok, tail, wall) in core.parallel([apa(o) for o in obligations], max_workers=3):
            chk.tlc_cmds.append('apalache %s: %s, %.1fs' % (name, 'NoError' if ok else 'FAILED', wall))
            if not ok:
                raise core.MachineryError('Apalache obligation failed: %s\n%s' % (name, tail))
            done += 1
        chk.extra['apalache_obligations'] = len(obligations)
        chk.extra['apalache_discharged'] = done
    # 2. spec -> code: one witness schedule per distinct terminal model state
    traces = []
    for sc in COVER[prop]:
        ws_list = bl.cover_witnesses(chk, sc)
        if not thorough and len(ws_list) > 2500:
            ws_list = rng.sample(ws_list, 2500)
        tr = bl.replay_witnesses(chk, ws_list)
        traces += tr
    for t in traces[:3]:
        chk.sample({'kind': 'tlc-witness', 'mode': t['mode'], 'inp': list(t['inp'])[:40], 'cl': t['cl'], 'buf': t['buf'],
                    'reads': t['ev'][:12], 'outcome': t['phase'], 'body_len': len(t['out'])})
    # 3. code -> spec: random executions far beyond the exhaustive constants
    n_small = 12000 if thorough else 1500
    n_large = 400 if thorough else 40
    if prop == 'C04':
        small = gen_cl_small(rng, n_small)
        large = gen_cl_large(rng, n_large)
    elif prop == 'C05':
        small = gen_chunked(rng, n_small)
        large = gen_chunked(rng, n_large // 2, big=True)
    else:
        small = gen_cl_small(rng, n_small // 2, limits=True) + gen_chunked(rng, n_small // 2, limits=True) + gen_multipart_limits(rng, n_small // 10)
        large = gen_cl_large(rng, n_large, limits=True)
        bigc = gen_chunked(rng, n_large // 2, limits=True, big=True)
        big_chunked_direct(chk, bigc, clauses)
    if prop == 'C13':
        # chunked framing: an over-limit body is refused after at most the limit plus one buffer of PAYLOAD has been taken from the
        # stream, however large the chunk that crosses the limit is (the content-trace clause ReadBound covers Content-Length)
        for t in small + bigc:
            if t.get('payload_consumed', 0) > t['maxBody'] + t['buf'] + 2 and t['maxBody'] >= 0:
                c = bl.case_of(t)
                c['clauses'] = ['ReadBound']
                chk.violation('C13: over-limit chunked body (limit %d, buffer %d): %d payload bytes had been read from the stream when the request was answered (%s)'
                              % (t['maxBody'], t['buf'], t['payload_consumed'], t['phase']), c)
    for t in small:
        chk.count(1, (t['mode'], t['kind'], len(t['inp']), t['cl'], t['buf'], t['maxBody'], len(t['ev']), t['phase']))
    for t in small[:3]:
        chk.sample({'kind': 'random', 'mode': t['mode'], 'gen': t['kind'], 'inp': list(t['inp'])[:40], 'cl': t['cl'],
                    'buf': t['buf'], 'maxBody': t['maxBody'], 'reads': t['ev'][:12], 'outcome': t['phase']})
    bl.validate(chk, traces + small, 'BodyTrace', clauses, prop + ' content traces')
    if prop in ('C04', 'C13'):
        for t in large:
            chk.count(1, ('large', len(t['inp']), t['cl'], t['buf'], t['maxBody'], len(t['ev']), t['phase']))
        bl.validate(chk, large, 'BodyNumTrace', clauses, prop + ' numeric traces')
    else:
        big_chunked_direct(chk, large, clauses)
    chk.extra['assumptions'] = [
        'wsgi.input.read(n) returns between 1 and n bytes, and b"" only at end of stream (PEP 3333)',
        'legal chunked encodings are generated with size lines that fit the configured buffer (bounded scan by design)',
        'large chunked bodies (> 4 kB) are judged by equality with the encoder payload in the harness, not by TLC',
    ]
    chk.extra['rule'] = ('cases = TLC state-cover witness schedules replayed on the real reader + seeded random executions; '
                         'distinct by (mode, generator kind, input length, Content-Length, buffer, limit, number of reads, outcome); '
                         'all are non-trivial in that each runs the real reader under a scripted stream')


def replay(path, prop):
    case = json.load(open(path))['case']
    inp = bytes.fromhex(case['inp_hex']) if case.get('inp_hex') is not None else None
    if inp is None:
        print('replay: input too large to be stored; re-run the check with the same VERIF_SEED')
        return 2
    t = bl.run_real(case['mode'], inp, case['cl'], case['buf'], case['maxBody'], schedule=case['reads'],
                    kind=case['kind'], expect=bytes.fromhex(case['expect_hex'] or ''), ctype=case.get('ctype') or None)
    print(json.dumps({'outcome': t['phase'], 'reads': t['ev'][:40], 'body_len': len(t['out']),
                      'body_equals_prefix': t['out'] == inp[:max(case['cl'], 0)] if case['mode'] == 'cl' else None,
                      'body_equals_payload': t['out'] == t['expect'] if case['mode'] == 'chunked' else None}))
    chk = core.Check(prop, 'quick', 0)
    bl.validate(chk, [t], 'BodyTrace', CLAUSES[prop], 'replay')
    return 1 if chk.violations else 0
