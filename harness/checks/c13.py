from harness.checks import bodychecks


def run(chk):
    bodychecks.run(chk, 'C13')
    form_text_budget(chk)


def form_text_budget(chk):
    """Third clause of C13: form text larger than the in-memory threshold is refused rather than loaded
    (multipart text fields share one budget; urlencoded bodies are limited by Content-Length)."""
    import random
    from harness.checks import formlib as fl, mplib
    rng = random.Random(chk.seed * 29 + 13)
    thorough = chk.tier == 'thorough'
    by_b = {}
    b = b'Bnd'
    specs, metas = [], []
    for _ in range(1500 if thorough else 200):
        buf = rng.choice([200, 300, 800])
        n = rng.choice([1, 2, 3, 8, 40])
        size = rng.choice([0, 10, buf // 4, buf // 2 + 50, max(0, buf - 150), buf - 100, buf + 1, 2 * buf])
        while n > 1 and n * max(size, 40) > 2500:      # keep bodies small enough for TLC to evaluate the model on them
            n = n // 2
        fs = []
        for i in range(n):
            if rng.random() < 0.25:
                fs.append({'name': 'f%d' % i, 'filename': 'up.bin', 'data': b'D' * rng.choice([10, buf + 5])})     # uploads do not count
            else:
                # the budget is counted in BYTES of text: multi-byte characters included
                ch = rng.choice(['v', 'v', '\xe9', '\u20ac'])
                nb = len(ch.encode('utf8'))
                fs.append({'name': 't%d' % i, 'value': ch * max(0, (size + rng.randint(-3, 3)) // nb)})
        body = mplib.encode_form(fs, b)
        specs.append({'buf': buf, 'body': body, 'ctype': 'multipart/form-data; boundary=Bnd', 'what': 'forms+files', 'chunked': rng.random() < 0.3,
                      'seed': rng.randrange(10 ** 9)})
        metas.append((body, buf, 'budget', fs, {'buf': buf, 'n': n, 'size': size}))
        chk.count(1, ('budget', buf, n, size, len(body)))
    # a file input left empty by the user agent arrives as a part with filename="" -- and whatever content a client chooses to
    # put there; it is not an upload the application asked to keep on disk, and it is not text within the budget either
    for _ in range(120 if thorough else 30):
        buf = rng.choice([200, 300, 800])
        big = rng.choice([buf + 1, 2 * buf, 10 * buf, 65536])
        fs = [{'name': 't0', 'value': 'v' * rng.choice([0, 10, buf // 2])},
              {'name': 'e1', 'filename': '', 'ctype': rng.choice([None, 'application/octet-stream', 'text/plain']), 'data': rng.choice([b'D', b'\xc3\xa9']) * (big // 2)}]
        if rng.random() < 0.5:
            fs.reverse()
        fs = [{k: v for k, v in f.items() if v is not None} for f in fs]
        body = mplib.encode_form(fs, b)
        specs.append({'buf': buf, 'body': body, 'ctype': 'multipart/form-data; boundary=Bnd', 'what': 'forms+files', 'chunked': rng.random() < 0.3,
                      'seed': rng.randrange(10 ** 9)})
        metas.append((body, buf, 'raw', None, {'buf': buf, 'n': 1, 'size': big}))
        chk.count(1, ('empty-filename', buf, big, len(body)))
    # urlencoded text
    for _ in range(400 if thorough else 80):
        buf = rng.choice([50, 300, 1000])
        k = rng.choice([buf - 10, buf - 4, buf - 3, buf - 2, buf, buf + 1, 4 * buf])
        body = b'a=' + b'v' * max(0, k)
        specs.append({'buf': buf, 'body': body, 'ctype': 'application/x-www-form-urlencoded', 'what': 'forms', 'chunked': rng.random() < 0.5,
                      'seed': rng.randrange(10 ** 9)})
        metas.append((body, buf, 'urlenc', [{'name': 'a', 'value': 'v' * max(0, k)}], {'buf': buf, 'n': 1, 'size': k, 'urlencoded': True}))
        chk.count(1, ('urlenc', buf, k))
    for (body, buf, kind, fs, m), res in zip(metas, fl.post_batch(specs, time_limit=10.0)):
        t = fl.to_trace(body, buf, kind, fs, res, full=(kind == 'budget' and res.get('one_piece', False)))
        by_b.setdefault(b, []).append((t, m))

    def describe(t, m, rel, bnd):
        chk.violation('C13: %s fails: %s text field(s) of about %s bytes with max_memfile_size %s -> status %s, %s bytes of text loaded'
                      % (rel, m['n'], m['size'], m['buf'], t['status'], sum(len(v) for k, vs in t['forms'] for v in vs)),
                      {'buf': m['buf'], 'n': m['n'], 'size': m['size'], 'clauses': rel, 'status': t['status']})
    fl.validate(chk, by_b, 'C13 form text', {'TextBudget', 'ClientErrorOnly', 'FormTextRefused', 'FormTextComplete'}, describe)


def replay(path):
    return bodychecks.replay(path, 'C13')
