"""Serving files through the default application's static_file (C16, C17)."""
import io
import os
import sys

from harness import core
from harness.checks.bodylib import base_environ

_state = {}


def default_app():
    """The module-level default app with a route that calls static_file (it reads Globals.request)."""
    import ombott
    app = ombott.app
    if not _state.get('route'):
        def h():
            # the arguments travel with the request (several requests may be in flight on different threads)
            st = ombott.request.environ.get('verif.static') or _state
            kw = dict(st.get('kw') or {})
            res = ombott.static_file(st['name'], st['root'], **kw)
            if st.get('after'):
                st['after']()        # the handler goes on after static_file() has answered (removes its temporary file, deploys)
            return res
        app.route('/__static__', method=['GET', 'HEAD'], callback=h)
        _state['route'] = True
    return app


def serve(name, root, method='GET', rng=None, ims=None, between=None, between_in_handler=False, **kw):
    app = default_app()
    _state.update(name=name, root=root, kw=kw)
    env = base_environ(REQUEST_METHOD=method, PATH_INFO='/__static__')
    env['verif.static'] = {'name': name, 'root': root, 'kw': kw, 'after': between if between_in_handler else None}
    if rng is not None:
        env['HTTP_RANGE'] = rng
    if ims is not None:
        env['HTTP_IF_MODIFIED_SINCE'] = ims
    rec = {}

    def sr(status, headers, exc_info=None):
        rec['status'], rec['headers'] = status, list(headers)
    out = app(env, sr)
    if between is not None and not between_in_handler:
        between()        # what happens on the server between the answer being decided and its body being sent
    chunks = []
    try:
        for part in out:
            chunks.append(bytes(part))
    finally:
        close = getattr(out, 'close', None)
        if close:
            close()
    return int(rec['status'].split()[0]), rec['headers'], chunks, env['wsgi.errors'].getvalue()
