"""Driving and recording the real body reader (C04, C05, C13).

Every execution goes through Ombott.__call__ with a handler that reads
request.body; wsgi.input is a scripted/recording stream.  The record is a
trace for specs/BodyTrace.tla (content-carrying) or specs/BodyNumTrace.tla
(numbers only, any size)."""
import io
import sys
import json
import os
import random
import re

from harness import core


class Stream:
    """wsgi.input: returns data in pieces chosen by `schedule` (list of sizes) and then by
    `rng` (None = full reads).  Records [ask, got] for every read()."""

    def __init__(self, data, schedule=None, rng=None, short_p=0.5):
        self.data, self.pos = data, 0
        self.schedule = list(schedule or [])
        self.rng, self.short_p = rng, short_p
        self.ev = []

    def read(self, n=-1):
        # what the streams of real servers do with absurd sizes (io.BytesIO, io.BufferedReader as wsgiref passes it)
        if n is not None and n > sys.maxsize:
            raise OverflowError("cannot fit 'int' into an index-sized integer")
        if n is not None and n > 2 ** 48:
            raise MemoryError()
        avail = len(self.data) - self.pos
        if n is None or n < 0:
            n_eff = avail
        else:
            n_eff = min(n, avail)
        k = n_eff
        if self.schedule:
            want = self.schedule.pop(0)
            if 0 < want <= n_eff or (want == 0 and n_eff == 0):
                k = want
        elif self.rng is not None and n_eff > 1 and self.rng.random() < self.short_p:
            k = self.rng.randint(1, n_eff)
        r = self.data[self.pos:self.pos + k]
        self.pos += k
        self.ev.append([n, len(r)])
        return r

    def readline(self, *a):  # pragma: no cover - never used by ombott
        raise core.MachineryError('unexpected readline on wsgi.input')


def base_environ(**kw):
    env = {
        'REQUEST_METHOD': 'GET', 'PATH_INFO': '/', 'SCRIPT_NAME': '', 'QUERY_STRING': '',
        'SERVER_NAME': 'localhost', 'SERVER_PORT': '80', 'SERVER_PROTOCOL': 'HTTP/1.1',
        'wsgi.version': (1, 0), 'wsgi.url_scheme': 'http', 'wsgi.input': io.BytesIO(b''),
        'wsgi.errors': io.StringIO(), 'wsgi.multithread': False, 'wsgi.multiprocess': False,
        'wsgi.run_once': False,
    }
    env.update(kw)
    return env


def call_app(app, env):
    """Minimal WSGI server: returns (status_code, status_line, headers, body_bytes, n_start_response)."""
    rec = {'n': 0}

    def sr(status, headers, exc_info=None):
        rec['n'] += 1
        rec['status'], rec['headers'] = status, headers
        return lambda b: None
    out = app(env, sr)
    try:
        body = b''.join(out)
    finally:
        close = getattr(out, 'close', None)
        if close:
            close()
    return int(rec['status'].split()[0]), rec['status'], rec['headers'], body, rec['n']


_apps = {}


def body_app(buf, max_body):
    """One app per configuration (reused: this is also how a server uses it)."""
    key = (buf, max_body)
    if key in _apps:
        return _apps[key]
    from ombott import Ombott
    app = Ombott({'max_memfile_size': buf, 'max_body_size': None if max_body < 0 else max_body})
    res = {}

    @app.route('/b', method='POST')
    def h():
        res.clear()
        body = app.request.body
        res['out'] = body.read()
        res['spooled'] = not isinstance(body, io.BytesIO)
        # every later presentation of the body is the same bytes (a signature-checking hook, then the handler; a peek, then a full read)
        peek = app.request.body.read(3)
        again = app.request.body.read()
        # the application corrects the media type of its own request (a proxy mislabelled it): the body is what it was
        app.request['CONTENT_TYPE'] = 'application/x-corrected'
        if app.request.body.read() != res['out']:
            again = b'<body changed after a CONTENT_TYPE assignment>'
        # a copy of the request (as handed to a sub-application or a background task) presents the same body
        try:
            via_copy = app.request.copy().body.read()
        except Exception as e:   # noqa
            via_copy = ('<%s>' % type(e).__name__).encode()
        res['reread'] = 'same' if (again == res['out'] and peek == res['out'][:3] and via_copy == res['out']) else 'differs'
        # what a handler does with ITS body object (append a marker, close it) is its own business and stays with this request
        b = app.request.body
        try:
            b.seek(0, 2)
            b.write(b'<scribbled by the handler of an earlier request>')
        except (ValueError, OSError):
            pass
        b.close()
        return 'ok'
    @app.route('/f', method='POST')
    def hf():
        # a handler that reads the parsed views first (forms / params / json), then the raw body
        res.clear()
        rq = app.request
        res['views'] = [len(rq.forms), len(rq.params), rq.json is None]
        return h()

    @app.route('/s', method='POST')
    def hs():
        # the response is produced lazily (an echo / transcoding stream): the handler takes the body object, the bytes are read
        # while the server iterates over the response, after the handler has returned
        res.clear()
        body = app.request.body
        res['spooled'] = not isinstance(body, io.BytesIO)

        def gen():
            try:
                data = body.read()
                body.seek(0)
                res['out'] = data
                res['reread'] = 'same' if body.read() == data else 'differs'
            except Exception as e:   # noqa
                res['out'] = ('<%s while the response was iterated>' % type(e).__name__).encode()
                res['reread'] = 'differs'
            yield 'ok'
        return gen()
    _apps[key] = (app, res)
    return _apps[key]


CTYPES = [None, None, 'application/octet-stream', 'text/plain', 'application/json', 'application/x-www-form-urlencoded',
          'multipart/form-data; boundary=b', 'multipart/form-data; boundary="x y"', 'multipart/related; boundary=--', 'multipart/form-data',
          'Multipart/Mixed; boundary=0']


def run_real(mode, inp, cl, buf, max_body, schedule=None, rng=None, kind='cl', expect=b'', short_p=0.5, ctype=None, plain=None, _retry=0, fault=False, via=None,
             in_thread=False):
    """plain = k: wsgi.input is an ordinary io.BytesIO positioned at offset k of (k junk bytes + inp) -- what a test client, a
    sub-request or a buffering outer application hands over; its reads cannot be logged (no mechanism conformance for it)."""
    app, res = body_app(buf, max_body)
    res.clear()
    st = Stream(bytes(inp), schedule, rng, short_p)
    if plain is not None:
        st = io.BytesIO(b'J' * plain + bytes(inp))
        st.seek(plain)
        st.ev = []
    env = base_environ(REQUEST_METHOD='POST', PATH_INFO={'views': '/f', 'stream': '/s'}.get(via, '/b'))
    env['wsgi.input'] = st
    if ctype is None and rng is not None:
        ctype = rng.choice(CTYPES)       # request.body is the raw body whatever the media type says
    if ctype:
        env['CONTENT_TYPE'] = ctype
    # servers that mark their input stream as self-terminating (PEP 3333 extension flag): Content-Length still says where
    # THIS request's body ends
    if (len(inp) + buf) % 3 == 0:
        env['wsgi.input_terminated'] = True
    if mode == 'cl':
        if cl >= 0:
            # the declared length as gateways hand it over: optional white space around the field value is not part of it
            # (RFC 7230 3.2.4; http.client.parse_headers keeps trailing blanks), leading zeros are legal digits
            env['CONTENT_LENGTH'] = ['%d', '%d', '%d', '%d ', ' %d', '\t%d', '0%d', '%d\t '][(len(inp) * 5 + cl + buf) % 8] % cl
    else:
        # transfer-coding names are case-insensitive; chunked is the last coding
        env['HTTP_TRANSFER_ENCODING'] = ['chunked', 'chunked', 'Chunked', 'CHUNKED', 'gzip, chunked', 'identity,Chunked', 'chunked '][(len(inp) + cl + buf) % 7]
        if cl >= 0:     # a (bogus) Content-Length next to chunked framing: the framing decides
            env['CONTENT_LENGTH'] = str(cl)
    import tempfile as _tf
    saved_tmp = _tf.tempdir
    if fault:
        # injected fault: no temporary file can be created while this request is served (temp directory gone / read-only image)
        _tf.tempdir = '/nonexistent-directory-for-ombott-verif'
    try:
        if in_thread:
            # servers call the application from worker threads, not from the thread that imported the framework
            import threading
            box = {}

            def work():
                try:
                    box['r'] = call_app(app, env)
                except Exception as e:   # noqa
                    box['e'] = e
            th = threading.Thread(target=work, daemon=True)
            th.start()
            th.join(10)
            if th.is_alive() or 'e' in box:
                status = 0
            else:
                status, line, headers, body, nsr = box['r']
        else:
            with core.time_limit(10):
                status, line, headers, body, nsr = call_app(app, env)
    except core.Hang:
        status = 0      # reported as outcome 'status0' (neither accepted nor a client error)
    finally:
        _tf.tempdir = saved_tmp
    if status == 500 and not fault:
        errs = env['wsgi.errors'].getvalue()
        if any(m in errs for m in ('Too many open files', 'No space left on device', 'Cannot allocate memory', 'MemoryError',
                                   '[Errno 12]', '[Errno 23]', '[Errno 24]', '[Errno 28]')):
            # the sandbox ran out of descriptors / disk / memory while serving: nothing can be concluded about the code.
            # Retry after a pause; a persistent failure is a machinery failure (exit 2), never a violation.
            if _retry < 2:
                import time as _t
                _t.sleep(2.0)
                return run_real(mode, inp, cl, buf, max_body, schedule=schedule, rng=None, kind=kind, expect=expect, short_p=short_p,
                                ctype=ctype, plain=plain, _retry=_retry + 1, via=via, in_thread=in_thread)
            raise core.MachineryError('environment failure while serving a request: %s' % errs.strip().splitlines()[-1:])
    phase = {200: 'done', 400: 'e400', 413: 'e413'}.get(status, 'status%d' % status)
    if phase == 'done' and 'out' not in res:
        phase = 'nobody'
    out = res.get('out', b'')
    return {
        'mode': mode, 'inp': bytes(inp), 'cl': cl, 'buf': buf, 'maxBody': max_body,
        'ev': st.ev, 'phase': phase, 'out': out if phase == 'done' else b'',
        'spooled': bool(res.get('spooled', False)) if phase == 'done' else False,
        'reread': res.get('reread', 'na') if phase == 'done' else 'na', 'ctype': ctype or '', 'opaque': plain is not None or via == 'views', 'fault': bool(fault),
        'kind': kind, 'expect': bytes(expect), 'errors': env['wsgi.errors'].getvalue()[-400:],
    }


def to_content_trace(t):
    return {'mode': t['mode'], 'inp': list(t['inp']), 'cl': t['cl'], 'buf': t['buf'], 'maxBody': t['maxBody'],
            'ev': t['ev'], 'phase': t['phase'], 'out': list(t['out']), 'spooled': t['spooled'],
            'kind': t['kind'], 'expect': list(t['expect']), 'reread': t.get('reread', 'na'), 'fault': bool(t.get('fault', False))}


def to_num_trace(t):
    n = 0
    a, b = t['out'], t['inp']
    m = min(len(a), len(b))
    if a[:m] == b[:m]:
        n = m
    else:
        while n < m and a[n] == b[n]:
            n += 1
    return {'dataLen': len(t['inp']), 'cl': t['cl'], 'buf': t['buf'], 'maxBody': t['maxBody'], 'ev': t['ev'],
            'phase': t['phase'], 'outLen': len(t['out']), 'lcp': n, 'spooled': t['spooled']}


def case_of(t):
    """JSON-able failing case for replay."""
    return {'mode': t['mode'], 'inp_hex': t['inp'].hex() if len(t['inp']) <= 4096 else None,
            'inp_len': len(t['inp']), 'cl': t['cl'], 'buf': t['buf'], 'maxBody': t['maxBody'],
            'reads': [e[1] for e in t['ev']][:5000], 'phase': t['phase'], 'kind': t['kind'],
            'ctype': t.get('ctype', ''), 'reread': t.get('reread', 'na'), 'out_len': len(t['out']), 'expect_hex': t['expect'].hex() if len(t['expect']) <= 4096 else None,
            'seed_data': t.get('seed_data')}


def validate(chk, traces, module, clauses, what):
    """Run one TLC trace-validation batch. Returns (set of mech-missing tids, dict tid -> failed clauses)."""
    if not traces:
        return set(), {}
    ws = core.tla_workspace()
    conv = to_content_trace if module == 'BodyTrace' else to_num_trace
    path = os.path.join(ws, 'traces.json')
    with open(path, 'w') as fh:
        json.dump([conv(t) for t in traces], fh)
    r = core.run_tlc(ws, module, module + '.cfg', workers=1, env={'TRACE_FILE': path}, timeout=3600)
    chk.add_tlc(r, '%s %s (%d traces)' % (module, what, len(traces)))
    missing, fails = core.trace_report(r)
    if 'GeneratorNotLegal' in {c for s in fails.values() for c in s}:
        raise core.MachineryError('harness generated an encoding the reference decoder does not accept')
    nviol = 0
    for tid, cl in sorted(fails.items()):
        rel = cl & clauses
        if rel:
            t = traces[tid - 1]
            c = case_of(t)
            c['clauses'] = sorted(rel)
            chk.violation('%s: clause(s) %s fail on a recorded execution of the real body reader '
                          '(mode=%s cl=%s buf=%s maxBody=%s outcome=%s, %d reads)'
                          % (what, sorted(rel), t['mode'], t['cl'], t['buf'], t['maxBody'], t['phase'], len(t['ev'])), c)
            nviol += 1
    # a mechanism mismatch without a property failure is drift, not a violation
    drift = [tid for tid in sorted(missing) if not (fails.get(tid, set()) & clauses) and not traces[tid - 1].get('opaque')
             and not traces[tid - 1].get('fault')]
    if drift:
        t = traces[drift[0] - 1]
        chk.drift('%s: %d recorded execution(s) are not behaviours of the implementation-shaped model '
                  '(first: mode=%s cl=%s buf=%s reads=%s outcome=%s)'
                  % (what, len(drift), t['mode'], t['cl'], t['buf'], t['ev'][:8], t['phase']))
    chk.traces_validated += len(traces) - len(missing | set(fails))
    return missing, fails


def cover_witnesses(chk, scenario):
    ws = core.tla_workspace()
    r = core.run_tlc(ws, 'MC_BodyCover', 'MC_BodyCover_%s.cfg' % scenario, workers=1, timeout=1800)
    chk.add_tlc(r, 'state cover MC_BodyCover_%s' % scenario)
    return r.printed_json('W')


def replay_witnesses(chk, ws_list):
    """Spec -> code: run each TLC witness schedule on the real reader."""
    traces = []
    for w in ws_list:
        t = run_real(w['mode'], bytes(w['inp']) if w['mode'] == 'chunked' else bytes(range(1, len(w['inp']) + 1)),
                     w['cl'], w['buf'], w['maxBody'], schedule=w['ks'], kind=w['kind'], expect=bytes(w['expect']))
        t['predicted'] = (w['phase'], bytes(w['out']) if w['phase'] == 'done' else b'', w['spooled'] if w['phase'] == 'done' else False)
        traces.append(t)
        chk.count(1, ('w', w['mode'], tuple(w['inp']), w['cl'], w['buf'], w['maxBody'], tuple(w['ks'])))
    return traces


# ---- legal chunked encodings (independent encoder)
def encode_chunked(rng, payload, max_line):
    parts = []
    pos = 0
    out = bytearray()
    sizes = []
    while pos < len(payload):
        k = rng.choice([1, 2, 3, rng.randint(1, 16), rng.randint(1, 300), rng.randint(1, max(1, len(payload)))])
        k = min(k, len(payload) - pos)
        sizes.append(k)
        pos += k
    pos = 0
    for k in sizes + [0]:
        for _ in range(20):
            h = ('%x' % k) if rng.random() < 0.5 else ('%X' % k)
            h = '0' * rng.choice([0, 0, 1, 2, 2, 16, 20]) + h        # any number of leading zeros is legal
            # chunk extensions: tokens and quoted strings, the latter with quoted pairs (an escaped quote, an escaped backslash)
            ext = rng.choice(['', '', ';a', ';name=val', ';q="x y"', ';a="x\\"y"', ';a="x;y=z"', ';k="\\\\"', ';t="q\\"uo\\"te\\""', ';a=""', ';a="\\"";b=c'])
            line = (h + ext).encode() + b'\r\n'
            if len(line) <= max_line:
                break
        else:
            line = (('%x' % k).encode() + b'\r\n')
        out += line
        if k:
            out += payload[pos:pos + k] + b'\r\n'
            pos += k
    trailer = rng.choice([b'', b'\r\n', b'X-T: v\r\n\r\n'])
    return bytes(out + trailer), sizes
