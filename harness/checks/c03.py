"""C03: every request gets exactly one well-formed WSGI response. See specs/Wsgi.tla."""
import io
import json
import random
from wsgiref.util import setup_testing_defaults
from wsgiref.validate import validator

from harness import core


class Counter:
    def __init__(self):
        self.c = {}

    def hit(self, oid):
        self.c[oid] = self.c.get(oid, 0) + 1


class CloseFailed(OSError):
    """What a handler's iterable raises from close() when its clean-up fails."""


class GenC:
    closefail = False

    """Iterator with a close() counter."""

    def __init__(self, items, oid, ctr, mk):
        self.items, self.i, self.oid, self.ctr, self.mk = items, 0, oid, ctr, mk

    def __iter__(self):
        return self

    def __next__(self):
        if self.i >= len(self.items):
            raise StopIteration
        it = self.items[self.i]
        self.i += 1
        return self.mk(it)

    def close(self):
        self.ctr.hit(self.oid)
        if self.closefail:
            raise CloseFailed('clean-up failed')


class GenN:
    """Iterator without close()."""

    def __init__(self, items, oid, ctr, mk):
        self.items, self.i, self.mk = items, 0, mk

    def __iter__(self):
        return self

    def __next__(self):
        if self.i >= len(self.items):
            raise StopIteration
        it = self.items[self.i]
        self.i += 1
        return self.mk(it)


class FileC(io.BytesIO):
    def __init__(self, data, oid, ctr):
        super().__init__(data)
        self.oid, self.ctr = oid, ctr

    closefail = False

    def close(self):
        self.ctr.hit(self.oid)
        super().close()
        if self.closefail:
            raise CloseFailed('clean-up failed')


class FileN:
    """read() only: no close, no __iter__."""

    def __init__(self, data):
        self._b = io.BytesIO(data)

    def read(self, n=-1):
        return self._b.read(n)


class FW:
    """wsgi.file_wrapper as servers provide it (cf. wsgiref.util.FileWrapper)."""

    def __init__(self, filelike, blksize=8192):
        self.filelike, self.blksize = filelike, blksize
        if hasattr(filelike, 'close'):
            self.close = filelike.close

    def __iter__(self):
        return self

    def __next__(self):
        data = self.filelike.read(self.blksize)
        if data:
            return data
        raise StopIteration


def concretise(prog, ctr):
    """Abstract program -> Python handler body (a function returning/raising)."""
    from ombott import HTTPResponse, HTTPError

    def mk_item(it):
        t = it['t']
        if t == 'estr':
            return ''
        if t == 'ebytes':
            return b''
        if t == 'str':
            return ('é' if it['wide'] else 'x') * it['n']
        if t == 'bytes':
            return b'y' * it['n']
        if t == 'int':
            return 42
        if t == 'raise':
            raise RuntimeError('generator failed')
        if t == 'iresp':
            return HTTPResponse('z' * it['n'], it['code'])
        if t == 'rresp':
            raise HTTPResponse('z' * it['n'], it['code'])
        raise core.MachineryError('item ' + t)

    def mk(o):
        t = o['t']
        if t == 'none':
            return None
        if t == 'str':
            return ('é' if o['wide'] else 'x') * o['n']
        if t == 'bytes':
            return b'y' * o['n']
        if t == 'int':
            return 42
        if t == 'list':
            return [mk_item(i) for i in o['items']]
        if t == 'gen':
            g = (GenC if o['closeable'] else GenN)(o['items'], o['id'], ctr, mk_item)
            g.closefail = bool(o.get('closefail'))
            return g
        if t == 'file':
            f = FileC(b'f' * o['n'], o['id'], ctr) if o['closeable'] else FileN(b'f' * o['n'])
            f.closefail = bool(o.get('closefail'))
            return f
        if t == 'resp':
            return HTTPResponse(mk(o['body']), o['code'])
        if t == 'err':
            return HTTPError(o['code'], 'message')
        raise core.MachineryError('out ' + t)
    return mk


class _AppError(Exception):
    pass


# KeyboardInterrupt / SystemExit / MemoryError are passed on to the server by design and are not handler failures
EXC_CLASSES = [ValueError, ValueError, KeyError, RecursionError, StopIteration, OSError, AssertionError, UnicodeError, _AppError, ArithmeticError]


def serve(prog, env, extra_status=None, rewrite=False, oneshot=False, cookie=None, exc_class=ValueError):
    from ombott import Ombott
    ctr = Counter()
    mk = concretise(prog, ctr)
    app = Ombott()
    hooks = []
    if serve.warm % 3 == 0:
        # the application has already served (a request for a path it does not know) before its hooks, error handlers and
        # routes are registered: what is registered later counts all the same
        warm_env = {}
        setup_testing_defaults(warm_env)
        warm_env.update(PATH_INFO='/before-anything-is-registered', REQUEST_METHOD='GET')
        warm_env['wsgi.errors'] = io.StringIO()
        b''.join(app(warm_env, lambda *a, **k: (lambda d: None)))
    serve.warm += 1
    for i in range(1, env['nb'] + 1):
        def b(i=i):
            hooks.append(['b', i])
            if i == 1 and oneshot:
                app.remove_hook('before_request', b_first[0])      # the "first request only" idiom: a hook that unregisters itself
            if i == 1 and rewrite:
                # before-request hooks run BEFORE routing: a hook may send the request elsewhere (locale prefix, retired URL)
                app.request['PATH_INFO'] = final_path
            if i == env['failAt']:
                raise (exc_class if exc_class is not ValueError else RuntimeError)('before hook failed')
        app.add_hook('before_request', b)
        if i == 1:
            b_first = [b]
    for j in range(1, env['na'] + 1):
        def a(j=j):
            hooks.append(['a', j])
            if j == env['na'] and oneshot:
                app.remove_hook('after_request', a_last[0])
        app.add_hook('after_request', a)
        a_last = [a]
    if env['errh'] != 'none':
        for code in (404, 500):
            def eh(err, code=code):
                if env['errh'] == 'raise':
                    raise RuntimeError('error handler failed')
                return 'custom'
            app.error(code)(eh)

    def handler():
        if prog['k'] == 'exc':
            # an arbitrary exception: ordinary ones, and ones that some code treats specially
            raise exc_class('handler failed')
        if prog['k'] == 'raise':
            raise mk(prog['v'])
        if prog.get('setst'):
            app.response.status = prog['setst']
        if cookie is not None:
            app.response.set_cookie('k', cookie)
        return mk(prog['v'])
    if env['routing'] == '405':
        app.route('/h', method=['PUT'], callback=handler)
    else:
        app.route('/h', method=['GET', 'HEAD', 'POST'], callback=handler)
    environ = {}
    setup_testing_defaults(environ)
    final_path = '/nope' if env['routing'] == '404' else '/h'
    rewrite = bool(rewrite and env['nb'] >= 1)
    # with `rewrite` the request arrives at a path that routes differently (405 where 404/200 is expected and vice versa)
    arrival = {'found': '/nope', '404': '/h', '405': '/nope'}[env['routing']] if rewrite else final_path
    environ.update(REQUEST_METHOD=env['method'], PATH_INFO=arrival, QUERY_STRING='')
    environ['wsgi.errors'] = io.StringIO()
    environ['wsgi.input'] = io.BytesIO(b'')
    if env['method'] == 'POST':
        environ['CONTENT_LENGTH'] = '0'
    if env['fw']:
        environ['wsgi.file_wrapper'] = FW
    else:
        environ.pop('wsgi.file_wrapper', None)
    rec = {'n': 0}

    def sr(status, headers, exc_info=None):
        rec['n'] += 1
        rec['status'], rec['headers'] = status, list(headers)
        return lambda data: None
    obs = {'sr': 0, 'status': 0, 'cl': -1, 'sent': 0, 'closes': [], 'hooks': [], 'escaped': False, 'wf': True, 'why': ''}
    try:
        out = validator(app)(environ, sr)
        body = b''
        try:
            for part in out:
                if not isinstance(part, bytes):
                    obs['wf'] = False
                    obs['why'] = 'non-bytes body item'
                    part = b''
                body += part
        finally:
            try:
                out.close()
            except CloseFailed:          # the server closing what it was given: the response is already out
                pass
        obs['sent'] = len(body)
    except AssertionError as e:      # wsgiref.validate found a PEP 3333 violation
        obs['wf'] = False
        obs['why'] = 'validator: ' + str(e)[:200]
    except Exception as e:           # noqa -- an exception escaped the application
        obs['escaped'] = True
        obs['why'] = '%s: %s' % (type(e).__name__, str(e)[:200])
    obs['sr'] = rec['n']
    if rec['n']:
        try:
            obs['status'] = int(rec['status'].split(' ', 1)[0])
            if len(rec['status']) < 5 or rec['status'][3] != ' ':
                obs['wf'] = False
        except ValueError:
            obs['wf'] = False
        for hk, hv in rec['headers']:
            # PEP 3333: header names and values are native strings that the server can encode as ISO-8859-1, without control characters
            try:
                if not isinstance(hk, str) or not isinstance(hv, str) or any(ord(c) < 32 or ord(c) == 127 for c in hk + hv):
                    raise ValueError
                (hk + hv).encode('latin1')
            except ValueError:
                obs['wf'] = False
                obs['why'] = 'header %r is not a well-formed native string' % hk
        cls = [v for k, v in rec['headers'] if k.lower() == 'content-length']
        if cls:
            try:
                obs['cl'] = int(cls[0])
            except ValueError:
                obs['cl'] = -3
    obs['closes'] = sorted([k, v] for k, v in ctr.c.items())
    obs['hooks'] = hooks
    return obs


serve.warm = 0


def reuse_records(rng, n, chk):
    from ombott import Ombott, HTTPError
    out = []
    for _ in range(n):
        app = Ombott({'max_body_size': 10})
        shared = HTTPError(rng.choice([403, 404, 418]), 'shared')

        def deny(p=None):
            raise shared
        app.route('/deny/<p:path>', callback=deny)
        app.route('/body/<p:path>', method='POST', callback=lambda p: app.request.body.read())
        for i in range(4):
            kind = rng.choice(['deny', 'oversize', 'badchunk'])
            path = '/%s/%s' % ('deny' if kind == 'deny' else 'body', 'x' * rng.randint(1, 40))
            environ = {}
            setup_testing_defaults(environ)
            environ.update(REQUEST_METHOD='GET' if kind == 'deny' else 'POST', PATH_INFO=path, QUERY_STRING='q' * rng.randint(0, 9))
            environ['wsgi.errors'] = io.StringIO()
            environ.pop('wsgi.file_wrapper', None)
            if kind == 'oversize':
                environ['wsgi.input'] = io.BytesIO(b'y' * 50)
                environ['CONTENT_LENGTH'] = '50'
            elif kind == 'badchunk':
                environ['wsgi.input'] = io.BytesIO(b'zz\r\n')
                environ['HTTP_TRANSFER_ENCODING'] = 'chunked'
                environ.pop('CONTENT_LENGTH', None)
            else:
                environ['wsgi.input'] = io.BytesIO(b'')
            rec = {'n': 0}

            def sr(status, headers, exc_info=None):
                rec['n'] += 1
                rec['status'], rec['headers'] = status, list(headers)
                return lambda d: None
            obs = {'sr': 0, 'status': 0, 'cl': -1, 'sent': 0, 'closes': [], 'hooks': [], 'escaped': False, 'wf': True, 'why': 'reuse:' + kind}
            try:
                res = validator(app)(environ, sr)
                body = b''.join(res)
                res.close()
                obs['sent'] = len(body)
            except AssertionError as e:
                obs['wf'] = False
                obs['why'] += ' validator: ' + str(e)[:100]
            except Exception as e:   # noqa
                obs['escaped'] = True
            obs['sr'] = rec['n']
            if rec['n']:
                obs['status'] = int(rec['status'].split()[0])
                cls = [v for k, v in rec['headers'] if k.lower() == 'content-length']
                obs['cl'] = int(cls[0]) if cls else -1
            code = obs['status'] if obs['status'] else 500
            out.append({'prog': {'k': 'raise', 'v': {'t': 'err', 'code': code}, 'setst': 0},
                        'env': {'method': environ['REQUEST_METHOD'], 'fw': False, 'routing': 'found', 'nb': 0, 'failAt': 0, 'na': 0, 'errh': 'none'},
                        'obs': obs})
            chk.count(1, ('reuse', kind, path, i))
    return out


def rand_prog(rng, depth=0):
    def s():
        return {'t': 'str', 'n': rng.choice([0, 1, 3, 40, 5000]), 'wide': rng.random() < 0.4}

    def item():
        k = rng.choice(['estr', 'ebytes', 'str', 'str', 'bytes', 'int', 'raise', 'iresp', 'rresp'])
        if k == 'str':
            return s()
        if k == 'bytes':
            return {'t': 'bytes', 'n': rng.choice([0, 2, 70000])}
        if k in ('iresp', 'rresp'):
            return {'t': k, 'code': rng.choice([200, 201, 204, 304, 404]), 'n': rng.choice([0, 2])}
        return {'t': k}

    def items():
        out = []
        kind = None
        for _ in range(rng.randint(0, 5)):
            it = item()
            k = 's' if it['t'] in ('str', 'estr') else 'b' if it['t'] in ('bytes', 'ebytes') else 'x'
            nonempty = it['t'] in ('str', 'bytes') and it['n'] > 0
            if kind and k != kind and k != 'x':
                continue
            if kind and k == 'x':
                continue
            out.append(it)
            if nonempty:
                kind = k
            elif k == 'x':
                break
            elif kind is None and k in 'sb' and not nonempty:
                # empties before the first real item fix nothing
                pass
        # after the first non-empty item only same-kind items
        return out

    def out(d):
        k = rng.choice(['none', 'str', 'bytes', 'int', 'list', 'gen', 'gen', 'file', 'resp', 'resp', 'err'] if d < 4 else ['str', 'none'])
        if k == 'none':
            return {'t': 'none'}
        if k == 'str':
            return s()
        if k == 'bytes':
            return {'t': 'bytes', 'n': rng.choice([0, 3, 9000])}
        if k == 'int':
            return {'t': 'int'}
        if k == 'list':
            return {'t': 'list', 'items': [i for i in items() if i['t'] in ('estr', 'ebytes', 'str', 'bytes')]}
        if k == 'gen':
            cl_ = rng.random() < 0.7
            return {'t': 'gen', 'items': items(), 'closeable': cl_, 'closefail': cl_ and rng.random() < 0.25, 'id': 5}
        if k == 'file':
            cl_ = rng.random() < 0.7
            return {'t': 'file', 'n': rng.choice([0, 3, 100000]), 'closeable': cl_, 'closefail': cl_ and rng.random() < 0.25, 'id': 7}
        if k == 'resp':
            return {'t': 'resp', 'code': rng.choice([100, 101, 102, 103, 199, 200, 201, 204, 299, 301, 304, 404, 418, 500, 599]), 'body': out(d + 1)}
        return {'t': 'err', 'code': rng.choice([400, 404, 418, 500, 503])}
    k = rng.choice(['ret', 'ret', 'ret', 'raise', 'exc'])
    if k == 'exc':
        return {'k': 'exc'}
    if k == 'raise':
        o = out(1)
        if o['t'] not in ('resp', 'err'):
            o = {'t': 'resp', 'code': 202, 'body': o}
        return {'k': 'raise', 'v': o}
    return {'k': 'ret', 'v': out(0), 'setst': rng.choice([0, 0, 0, 204, 102, 299, 304])}


def fix_homog(o):
    """List/gen items: after the first non-empty str/bytes item keep only items of the same kind (grammar of the spec)."""
    if o.get('t') in ('list', 'gen'):
        out, kind = [], None
        for it in o['items']:
            k = 's' if it['t'] in ('str', 'estr') else 'b' if it['t'] in ('bytes', 'ebytes') else 'x'
            if kind is None:
                out.append(it)
                if it['t'] in ('str', 'bytes') and it['n'] > 0:
                    kind = k
                elif k == 'x':
                    break
            elif k == kind:
                out.append(it)
        o['items'] = out
    if o.get('t') == 'resp':
        fix_homog(o['body'])
    return o


def run(chk):
    rng = random.Random(chk.seed * 11 + 3)
    thorough = chk.tier == 'thorough'
    progs = []

    def mcjob(sc):
        def job():
            ws = core.tla_workspace()
            r = core.run_tlc(ws, 'MC_Wsgi', 'MC_Wsgi_%s.cfg' % sc, allow_violation=True, workers=6)
            chk.add_tlc(r, 'exhaustive MC_Wsgi ' + sc)
            if not r.ok:
                raise core.MachineryError('model-level: %s\n%s' % (r.violated, r.out[-1500:]))
            return []
        return job

    def coverjob(sc):
        def job():
            ws = core.tla_workspace()
            r = core.run_tlc(ws, 'MC_WsgiCover', 'MC_WsgiCover_%s.cfg' % sc, workers=1)
            chk.add_tlc(r, 'program enumeration MC_WsgiCover ' + sc)
            return r.printed_json('W')
        return job
    res = core.parallel([mcjob('cast'), mcjob('env'), coverjob('cast'), coverjob('env')])
    chk.exhaustive = True
    wl = res[2] + res[3]
    if not thorough:
        wl = rng.sample(res[2], min(len(res[2]), 5000)) + rng.sample(res[3], min(len(res[3]), 2500))
    recs = []
    for w in wl:
        env = {k: w['env'][k] for k in ('method', 'fw', 'routing', 'nb', 'failAt', 'na', 'errh')}
        obs = serve(w['prog'], env, rewrite=len(recs) % 3 == 0, oneshot=len(recs) % 4 == 1, cookie=[None, 'v1', '10\u20ac', '\u4e2d\xe9'][len(recs) % 4],
                    exc_class=EXC_CLASSES[len(recs) % len(EXC_CLASSES)])
        recs.append({'prog': w['prog'], 'env': env, 'obs': obs})
        chk.count(1, ('tlc', json.dumps(w['prog'], sort_keys=True), json.dumps(env, sort_keys=True)))
    chk.sample({'prog': recs[0]['prog'], 'env': recs[0]['env'], 'obs': {k: v for k, v in recs[0]['obs'].items()}})
    # random programs beyond the exhaustive grammar: depth <= 5, long bodies, arbitrary statuses
    for _ in range(15000 if thorough else 2500):
        prog = rand_prog(rng)
        if 'v' in prog:
            fix_homog(prog['v'])
        nb = rng.choice([0, 0, 1, 2])
        env = {'method': rng.choice(['GET', 'GET', 'HEAD', 'POST']), 'fw': rng.random() < 0.5,
               'routing': rng.choice(['found', 'found', 'found', '404', '405']), 'nb': nb,
               'failAt': rng.choice([0, 0, 0] + list(range(1, nb + 1))), 'na': rng.choice([0, 1, 2]),
               'errh': rng.choice(['none', 'none', 'str', 'raise'])}
        prog.setdefault('setst', 0)
        obs = serve(prog, env, rewrite=rng.random() < 0.3, oneshot=rng.random() < 0.3, cookie=rng.choice([None, None, 'a b', '10\u20ac', '\u0416', 'caf\xe9']),
                    exc_class=rng.choice(EXC_CLASSES))
        recs.append({'prog': prog, 'env': env, 'obs': obs})
        chk.count(1, ('rand', json.dumps(prog, sort_keys=True), json.dumps(env, sort_keys=True)))
    chk.sample({'prog': recs[-1]['prog'], 'env': recs[-1]['env'], 'obs': recs[-1]['obs']})
    # response objects that live longer than one request: an application-level HTTPError raised by several requests and the
    # framework's own shared 400/413 objects (config.errors_map); URLs of different lengths make the error pages differ in length
    recs += reuse_records(rng, 60 if thorough else 12, chk)

    def strip(t):
        p = dict(t['prog'])
        p.setdefault('setst', 0)
        p.setdefault('v', {'t': 'none'})
        o = {k: v for k, v in t['obs'].items() if k != 'why'}
        return {'prog': p, 'env': t['env'], 'obs': o}
    missing, fails = core.validate_records(chk, 'WsgiTrace', recs, 'C03', strip=strip)
    for i, cl in sorted(fails.items()):
        t = recs[i]
        chk.violation('C03: %s fails: program %s in %s -> %s'
                      % (sorted(cl), json.dumps(t['prog'])[:300], json.dumps(t['env']), json.dumps(t['obs'])[:300]),
                      {'prog': t['prog'], 'env': t['env'], 'clauses': sorted(cl), 'obs': t['obs']})
    drift = sorted(set(missing) - set(fails))
    if drift:
        t = recs[drift[0]]
        chk.drift('C03: %d records differ from the term-rewriting model (first: %s in %s -> %s)'
                  % (len(drift), json.dumps(t['prog'])[:200], json.dumps(t['env']), json.dumps(t['obs'])[:200]))
    chk.extra['assumptions'] = ['decodable paths; after-request hooks do not fail; items after the first forwarded chunk are of the same string kind',
                                '"closed exactly once" is required of the iterable whose items reach the body',
                                'wsgiref.validate (stdlib) is the judge of PEP 3333 well-formedness']
    chk.extra['rule'] = 'every program of the exhaustive grammar (sampled in quick) x environment, plus random programs to depth 5 with long bodies and statuses 100-599; each served by a fresh application under wsgiref.validate'


def replay(path):
    case = json.load(open(path))['case']
    print(json.dumps(serve(case['prog'], case['env']), indent=1))
    return 1
