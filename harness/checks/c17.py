"""C17: Range and conditional requests describe exactly the bytes delivered. See specs/Static.tla."""
import email.utils
import io
import itertools
import json
import os
import random
import re
import shutil
import tempfile

from harness import core
from harness.checks import staticlib as sl


def s2l(s):
    return [ord(c) for c in s]


def record(path, data, mtime, header, ims_cls, method, maxread):
    ims = None
    if ims_cls in ('older', 'equal', 'newer'):
        ts = int(mtime) + {'older': -10, 'equal': 0, 'newer': 10}[ims_cls]
        ims = spell_date(ts, record.spelling)
        record.spelling = (record.spelling + 1) % 7
    elif ims_cls == 'junk':
        # a header that is no date at all, in several spellings (also present but empty)
        ims = ['yesterday-ish', '', ' ', ';', 'Thu, 32 Foo 2020 25:61:61 GMT', '0', '-1', ';;x'][record.junk % 8]
        record.junk += 1
    out = {}
    for m in (method, 'HEAD'):
        status, headers, chunks, errs = sl.serve(os.path.basename(path), os.path.dirname(path), method=m, rng=header, ims=ims)
        out[m] = (status, headers, chunks)
    status, headers, chunks = out[method]
    hd = dict(headers)
    body = b''.join(chunks)
    cr, crraw = [], hd.get('Content-Range', '')
    m = re.match(r'^bytes (\d+)-(\d+)/(\d+)$', crraw)
    if m:
        cr = [int(m.group(1)), int(m.group(2)), int(m.group(3))]
    elif crraw:
        cr = [-1, -1, -1]
    try:
        cl = int(hd.get('Content-Length', '-1'))
    except ValueError:
        cl = -2
    off = -1
    if body:
        # files <= 250 bytes hold distinct bytes, so the offset is unambiguous; in large random files a short body may
        # occur more than once: prefer the occurrence the response itself announces
        c = cr[0] if len(cr) == 3 and cr[0] >= 0 else 0
        off = c if data[c:c + len(body)] == body else data.find(body)
    canon = lambda hs: sorted(s2l('%s: %s' % (k, v)) for k, v in hs if k not in ('Date',))
    return {'kind': 'serve', 'L': len(data), 'hasRange': header is not None, 'header': s2l(header or ''), 'ims': ims_cls, 'method': method,
            'status': status, 'cr': cr, 'cl': cl, 'bodyLen': len(body), 'bodyOff': off, 'chunks': [len(c) for c in chunks],
            'maxread': maxread, 'hdrs': canon(headers), 'headHdrs': canon(out['HEAD'][1]),
            'headBody': sum(len(c) for c in out['HEAD'][2])}


record.spelling = 0
record.junk = 0


def spell_date(ts, how):
    """The same instant in the date spellings RFC 7231 allows / clients use: GMT, numeric zones, a named zone, rfc850, asctime."""
    import datetime
    if how == 0:
        return email.utils.formatdate(ts, usegmt=True)
    if how in (1, 2, 3):
        off = {1: -5, 2: 2, 3: 9}[how]
        d = datetime.datetime.fromtimestamp(ts, tz=datetime.timezone(datetime.timedelta(hours=off)))
        return email.utils.format_datetime(d)                       # 'Tue, 29 Sep 2026 01:00:00 -0500'
    if how == 4:
        d = datetime.datetime.fromtimestamp(ts, tz=datetime.timezone(datetime.timedelta(hours=-4)))
        return d.strftime('%a, %d %b %Y %H:%M:%S') + ' EDT'
    d = datetime.datetime.fromtimestamp(ts, tz=datetime.timezone.utc)
    if how == 5:
        return d.strftime('%A, %d-%b-%y %H:%M:%S GMT')               # rfc850
    return d.strftime('%a %b %d %H:%M:%S %Y').replace(' 0', '  ', 1) if d.day < 10 else d.strftime('%a %b %d %H:%M:%S %Y')   # asctime


def run(chk):
    try:
        from ombott.static_stream import _file_iter_range
    except ImportError:
        # the streaming loop is a private function: without it the loop is exercised only through whole responses
        _file_iter_range = None
    rng = random.Random(chk.seed * 13 + 17)
    thorough = chk.tier == 'thorough'
    jobs = []
    for sc in ('range', 'cond'):
        def job(sc=sc):
            ws = core.tla_workspace()
            r = core.run_tlc(ws, 'MC_Static', 'MC_Static_%s.cfg' % sc, allow_violation=True, workers=6)
            chk.add_tlc(r, 'exhaustive MC_Static ' + sc)
            if not r.ok:
                raise core.MachineryError('model-level: %s\n%s' % (r.violated, r.out[-1500:]))
        jobs.append(job)
    core.parallel(jobs)
    chk.exhaustive = True
    tmp = tempfile.mkdtemp(prefix='ombverif-c17-')
    core._scratch.append(tmp)
    recs = []
    files = {}
    for L in list(range(0, 8)) + [13, 100, 250]:
        p = os.path.join(tmp, 'f%d.bin' % L)
        data = bytes(range(L)) if L <= 250 else None
        open(p, 'wb').write(data)
        files[L] = (p, data, os.stat(p).st_mtime)
    # every header body of length <= 3 (quick) / 4 over the near-miss alphabet, as the model does
    alpha = '015-, +_x'
    for n in range(0, 5 if thorough else 4):
        for t in itertools.product(alpha, repeat=n):
            hdr = 'bytes=' + ''.join(t)
            for L in ([0, 1, 2, 6] if not thorough else range(0, 7)):
                p, data, mt = files[L]
                recs.append(record(p, data, mt, hdr, 'absent', 'GET', 2 ** 20))
                chk.count(1, ('hdr', hdr, L))
    # RFC grammar and near misses on more lengths, with conditionals and HEAD
    hdrs = ['bytes=0-0', 'bytes=0-', 'bytes=-3', 'bytes=-30', 'bytes=-0', 'bytes=9-', 'bytes=10-', 'bytes=5-2', 'bytes=2-100',
            'bytes=0-4,6-8', 'bytes=50-60,0-1', 'junk', 'bytes=', 'bytes=-', 'bytes=a-b', 'bytes= 1 - 2 ', 'bytes=+1-+2',
            'bytes=1_0-', 'xbytes=1-2', 'bytes=1-2-3', 'BYTES=1-2', '', None, 'bytes=3-3', 'bytes=12-12', 'bytes=99-99', 'bytes=0-99',
            'bytes=100-', 'bytes=-100', 'bytes=-101', 'bytes=249-300',
            # optional white space around the commas of the list (RFC 7230 section 7)
            'bytes=4- , 0-1', 'bytes=4- ,0-1', 'bytes=0-5 , 10-20', 'bytes=-3 ,0-1', 'bytes=4-\t, 0-1', 'bytes=0-5, 10-20', 'bytes=2-\t,\t0-0']
    for h in hdrs:
        for L in (0, 1, 7, 13, 100, 250):
            for ims in ('absent', 'older', 'equal', 'newer', 'junk'):
                for method in ('GET', 'HEAD'):
                    if ims != 'absent' and rng.random() < (0.0 if thorough else 0.6):
                        continue
                    p, data, mt = files[L]
                    recs.append(record(p, data, mt, h, ims, method, 2 ** 20))
                    chk.count(1, ('cond', h, L, ims, method))
    # files dated at and before the epoch (reproducible builds, restored archives): the date 0 is a date like any other
    for mt in (0, -86400, 1):
        p = os.path.join(tmp, 'epoch%d.bin' % (mt + 100000))
        data = bytes(range(9))
        open(p, 'wb').write(data)
        os.utime(p, (mt, mt))
        for ims in ('older', 'equal', 'newer', 'absent'):
            for method in ('GET', 'HEAD'):
                recs.append(record(p, data, float(mt), rng.choice([None, 'bytes=0-3']), ims, method, 2 ** 20))
                chk.count(1, ('epoch', mt, ims, method))
    # around the real streaming buffer
    big = {}
    for L in ([2 ** 20 - 1, 2 ** 20, 2 ** 20 + 1, 2 * 2 ** 20 + 1] + ([3 * 2 ** 20 + 123] if thorough else [])):
        p = os.path.join(tmp, 'big%d.bin' % L)
        data = random.Random(L).randbytes(L)
        open(p, 'wb').write(data)
        big[L] = (p, data, os.stat(p).st_mtime)
        M = 2 ** 20
        for h in [None, 'bytes=0-', 'bytes=1-', 'bytes=-1', 'bytes=%d-' % (M - 1), 'bytes=0-%d' % (M - 1), 'bytes=0-%d' % M, 'bytes=5-%d' % (M + 5),
                  'bytes=100-%d' % (M + M // 2), 'bytes=%d-%d' % (M, 2 * M), 'bytes=-%d' % (M + 1), 'bytes=%d-' % (L - 1), 'bytes=%d-' % L,
                  'bytes=%d-%d' % (rng.randint(0, L - 1), rng.randint(0, 2 * L))]:
            recs.append(record(p, data, big[L][2], h, 'absent', rng.choice(['GET', 'GET', 'HEAD']), M))
            chk.count(1, ('big', h, L))
    # one path whose content is replaced by content of another length while its mtime stays the same (rsync -t, cp -p, two
    # writes within one timestamp tick): every response describes the bytes that are in the file NOW
    hp = os.path.join(tmp, 'replaced.bin')
    fixed = int(os.stat(files[13][0]).st_mtime) - 1000
    for step, L in enumerate([50, 20, 80, 0, 33, 250, 7]):
        data = bytes((step * 37 + i) % 251 for i in range(L))
        with open(hp, 'wb') as fh:
            fh.write(data)
        os.utime(hp, (fixed, fixed))
        for h in [None, 'bytes=0-', 'bytes=-5', 'bytes=10-', 'bytes=0-99', 'bytes=25-40']:
            for method in ('GET', 'HEAD'):
                recs.append(record(hp, data, float(fixed), h, rng.choice(['absent', 'absent', 'older']), method, 2 ** 20))
                chk.count(1, ('replaced', step, h, method))
    # an atomic deploy (os.replace) or a clean-up (unlink) lands between the moment the answer is decided and the moment its
    # body is sent: headers and bytes still describe one and the same file
    dp = os.path.join(tmp, 'deployed.bin')
    old_data = bytes(range(40))
    for h in [None, 'bytes=0-15', 'bytes=-5', 'bytes=10-', 'bytes=3-3']:
        for event in ('replace', 'unlink', 'replace-in-handler', 'unlink-in-handler'):
            with open(dp, 'wb') as fh:
                fh.write(old_data)
            in_handler = event.endswith('-in-handler')
            event = event.split('-')[0]

            def ev(event=event):
                if event == 'replace':
                    with open(dp + '.new', 'wb') as fh:
                        fh.write(b'v2')
                    os.replace(dp + '.new', dp)
                else:
                    os.unlink(dp)
            try:
                status, headers, chunks, errs = sl.serve(os.path.basename(dp), os.path.dirname(dp), rng=h, between=ev, between_in_handler=in_handler)
                body = b''.join(chunks)
            except Exception as e:   # noqa
                status, headers, body = -1, [], repr(e).encode()
            hd = dict(headers)
            chk.count(1, ('deploy', h, event))
            want = old_data
            m_ = re.match(r'^bytes (\d+)-(\d+)/(\d+)$', hd.get('Content-Range', ''))
            if m_:
                want = old_data[int(m_.group(1)):int(m_.group(2)) + 1]
            if status not in (200, 206) or str(len(body)) != hd.get('Content-Length') or body != want:
                chk.violation("C17: ['SliceConsistent'] fails: Range %r, then the file is %sd before the body is sent -> status %s, Content-Length %s, Content-Range %r, %d bytes delivered%s"
                              % (h, event, status, hd.get('Content-Length'), hd.get('Content-Range', ''), len(body), '' if body == want else ' (not the bytes the headers describe)'),
                              {'header': h, 'event': event, 'status': status, 'clauses': ['SliceConsistent'], 'deploy': True})
    # the server's local time zone observes daylight saving: dates are HTTP dates (GMT) whatever the zone; files with a winter
    # and with a summer modification time, conditional requests at / around that time
    import time as _time
    saved_tz = os.environ.get('TZ')
    try:
        for tz in ('CET-1CEST,M3.5.0,M10.5.0/3', 'EST5EDT,M3.2.0,M11.1.0', 'NZST-12NZDT,M9.5.0,M4.1.0/3'):
            os.environ['TZ'] = tz
            _time.tzset()
            for label, ts in (('winter', 1705320000), ('summer', 1721044800), ('autumn', 1729990800)):      # 2024-01-15, 2024-07-15, 2024-10-27 01:00 UTC
                fp = os.path.join(tmp, 'dst-%s.bin' % label)
                data = bytes(range(40))
                with open(fp, 'wb') as fh:
                    fh.write(data)
                os.utime(fp, (ts, ts))
                for ims in ('older', 'equal', 'newer', 'absent'):
                    for method in ('GET', 'HEAD'):
                        recs.append(record(fp, data, float(ts), rng.choice([None, 'bytes=0-9']), ims, method, 2 ** 20))
                        chk.count(1, ('dst', tz, label, ims, method))
    finally:
        if saved_tz is None:
            os.environ.pop('TZ', None)
        else:
            os.environ['TZ'] = saved_tz
        _time.tzset()
    # a file published through a symbolic link (static/app.js -> ../build/app.<hash>.js): length, ranges and validators are
    # those of the content that is delivered
    target = os.path.join(tmp, 'build-0123456789abcdef0123456789abcdef-app.bin')
    tdata = bytes((i * 7) % 251 for i in range(5000))
    with open(target, 'wb') as fh:
        fh.write(tdata)
    link = os.path.join(tmp, 'app.bin')
    os.symlink(target, link)
    old = int(os.stat(target).st_mtime) - 5000
    os.utime(link, (old, old), follow_symlinks=False)          # the link itself is older than the content
    for h in [None, 'bytes=0-', 'bytes=100-199', 'bytes=-10', 'bytes=4990-', 'bytes=0-4999', 'bytes=27-', 'bytes=5000-']:
        for ims in ('absent', 'older', 'equal', 'newer'):
            for method in ('GET', 'HEAD'):
                recs.append(record(link, tdata, os.stat(target).st_mtime, h, ims, method, 2 ** 20))
                chk.count(1, ('symlink', h, ims, method))
    # _file_iter_range with small buffers (the streaming loop itself)
    if _file_iter_range is None:
        chk.drift('C17: ombott.static_stream._file_iter_range is gone: the streaming loop is not driven with small buffers in this run')
    for _ in range((3000 if thorough else 500) if _file_iter_range is not None else 0):
        L = rng.choice([0, 1, 2, 5, 9, 17, 64])
        off = rng.randint(0, L + 2)
        n = rng.randint(0, L + 3)
        mr = rng.choice([1, 2, 3, 4, 7, 16])
        data = bytes(range(L))
        chunks = list(_file_iter_range(io.BytesIO(data), off, n, maxread=mr))
        body = b''.join(chunks)
        recs.append({'kind': 'iter', 'L': L, 'off': off, 'n': n, 'maxread': mr, 'chunks': [len(c) for c in chunks],
                     'bodyOff': data.find(body) if body else -1})
        chk.count(1, ('iter', L, off, n, mr))
    chk.sample({k: v for k, v in recs[40].items() if k not in ('hdrs', 'headHdrs')})
    chk.sample({'header': 'bytes=2-100', 'L': 13, 'record': {k: v for k, v in record(*files[13], 'bytes=2-100', 'absent', 'GET', 2 ** 20).items() if k in ('status', 'cr', 'cl', 'bodyLen', 'bodyOff')}})
    missing, fails = core.validate_records(chk, 'StaticTrace', recs, 'C17')
    for i, cl in sorted(fails.items()):
        t = recs[i]
        case = {k: v for k, v in t.items() if k not in ('hdrs', 'headHdrs')}
        case['clauses'] = sorted(cl)
        case['header_text'] = ''.join(map(chr, t.get('header', [])))
        chk.violation('C17: %s fails: file length %s, Range %r, ims %s, %s -> status %s, Content-Range %s, Content-Length %s, body %s bytes at offset %s, chunks %s'
                      % (sorted(cl), t['L'], case['header_text'], t.get('ims'), t.get('method'), t.get('status'), t.get('cr'), t.get('cl'),
                         t.get('bodyLen'), t.get('bodyOff'), t.get('chunks', [])[:6]), case)
    drift = sorted(set(missing) - set(fails))
    if drift:
        t = recs[drift[0]]
        chk.drift('C17: %d records differ from the transcription (first: %s)' % (len(drift), {k: v for k, v in t.items() if k not in ('hdrs', 'headHdrs')}))
    chk.extra['assumptions'] = ['for headers outside the RFC 7233 grammar either 416 or a self-consistent 206 is accepted',
                                'the HEAD twin of every request must carry the same headers (Date excluded)']
    chk.extra['rule'] = 'all Range bodies of length <= 3/4 over "015-, +_x" x file lengths, a grammar/near-miss list x lengths x If-Modified-Since classes x GET/HEAD, files around the 1 MiB buffer, _file_iter_range with small buffers'


def replay(path):
    case = json.load(open(path))['case']
    print(json.dumps(case, indent=1)[:2000])
    return 1
