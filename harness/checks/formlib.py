"""Posting multipart / urlencoded / JSON bodies to a real application and recording what the handler sees."""
import io
import json
import os
import time

from harness import core
from harness.checks.bodylib import base_environ, call_app, Stream, encode_chunked

_apps = {}


def s2l(s):
    return [ord(c) for c in s]


def form_app(buf, max_body=None):
    key = (buf, max_body)
    if key in _apps:
        return _apps[key]
    from ombott import Ombott
    cfg = {'max_memfile_size': buf}
    if max_body is not None:
        cfg['max_body_size'] = max_body
    # every other configuration is applied through the public Ombott.setup() instead of the constructor
    if buf in (16, 1000, 100) or (max_body or 0) % 2:
        app = Ombott()
        app.setup(cfg)
    else:
        app = Ombott(cfg)

    def view(what):
        rq = app.request
        out = {}
        if 'forms' in what:
            out['forms'] = [[k, v if isinstance(v, list) else [v]] for k, v in rq.forms.items()]
        if 'files' in what:
            files = []
            # the uploads are read the way a handler that sniffs types does: the first bytes of EVERY upload, then the rest of each
            heads = {}
            for k, v in rq.files.items():
                for u in (v if isinstance(v, list) else [v]):
                    if hasattr(u, 'file'):
                        u.file.seek(0)
                        heads[id(u)] = u.file.read(4)
            for k, v in rq.files.items():
                ups = v if isinstance(v, list) else [v]
                row = []
                for u in ups:
                    if hasattr(u, 'file'):
                        ct = u.headers.get('Content-Type') if hasattr(u, 'headers') else None
                        ct = getattr(ct, 'value', ct)
                        row.append([u.raw_filename, [ct] if ct is not None else [], list(heads[id(u)] + u.file.read())])
                    else:
                        row.append(['<not an upload: %r>' % (u,), [], []])
                files.append([k, row])
            out['files'] = files
        if 'json' in what:
            out['json'] = rq.json
        if 'post' in what:
            out['post_keys'] = list(rq.POST.keys())
        if 'body' in what:
            out['body_len'] = len(rq.body.read())
        if 'params' in what:
            out['params_keys'] = list(rq.params.keys())
        return json.dumps(out)

    @app.route('/f/<what>', method='POST')
    def f(what):
        return view(what.split('+'))
    _apps[key] = app
    return app


def post(buf, body, ctype, what='forms+files', chunked=False, rng=None, max_body=None, time_limit=10.0, cut_wire=None, in_thread=False, raw_wire=None):
    app = form_app(buf, max_body)
    env = base_environ(REQUEST_METHOD='POST', PATH_INFO='/f/' + what, CONTENT_TYPE=ctype)
    wire = body
    if chunked:
        wire, _ = encode_chunked(rng, body, buf)      # size lines must fit the read buffer (bounded scan by design)
        env['HTTP_TRANSFER_ENCODING'] = 'chunked'
        if cut_wire is not None:        # the chunked framing itself is cut short
            wire = wire[:int(len(wire) * cut_wire)]
    else:
        env['CONTENT_LENGTH'] = str(len(body))
    if raw_wire is not None:        # the bytes on the wire as given (chunked framing written by the caller)
        wire = raw_wire
        env.pop('CONTENT_LENGTH', None)
        env['HTTP_TRANSFER_ENCODING'] = 'chunked'
    stream = env['wsgi.input'] = Stream(wire, rng=rng if (rng is not None and rng.random() < 0.5) else None)
    t0 = time.time()
    escaped = False
    hung = False
    if in_thread:
        # servers call the application from worker threads, not from the thread that imported the framework
        import threading
        box = {}

        def work():
            try:
                box['r'] = call_app(app, env)
            except Exception as e:   # noqa
                box['e'] = e
        th = threading.Thread(target=work, daemon=True)
        th.start()
        th.join(time_limit)
        if th.is_alive():
            hung, status, out = True, 0, b''
        elif 'e' in box:
            escaped, status, out = True, 0, repr(box['e']).encode()
        else:
            status, line, headers, out, n = box['r']
    else:
        try:
            with core.time_limit(time_limit):
                status, line, headers, out, n = call_app(app, env)
        except core.Hang:
            hung, status, out = True, 0, b''
        except Exception as e:   # noqa
            escaped, status, out = True, 0, repr(e).encode()
    dt = time.time() - t0
    res = {'status': status, 'escaped': escaped, 'hang': hung or dt > time_limit, 'errors': env['wsgi.errors'].getvalue()[-300:],
           'one_piece': (not chunked) and sum(1 for a, g in stream.ev if g) <= 1}
    if status == 200:
        try:
            res.update(json.loads(out.decode('utf8')))
        except ValueError:
            res['status'] = -1
    return res


def post_batch(specs, time_limit=5.0):
    """Serve many requests in a child process; a request that does not finish within `time_limit` (plus start-up allowance)
    is recorded as a hang, the child is killed and a new one continues with the next request.
    spec: dict(buf, body (bytes), ctype, what, chunked, seed, max_body, cut_wire, in_thread)."""
    import select
    import subprocess
    import sys
    import tempfile
    n = len(specs)
    if not n:
        return []
    tmp = tempfile.NamedTemporaryFile('w', suffix='.json', prefix='ombverif-specs-', delete=False)
    json.dump([dict(sp, body=sp['body'].hex(), time_limit=time_limit) for sp in specs], tmp)
    tmp.close()
    results = [None] * n
    hang = {'status': 0, 'escaped': False, 'hang': True, 'errors': '', 'one_piece': False}
    i = 0
    hangs = 0
    try:
        while i < n:
            proc = subprocess.Popen([sys.executable, '-m', 'harness.checks.formworker', tmp.name, str(i)], cwd=core.VERIF,
                                    stdout=subprocess.PIPE, stderr=subprocess.DEVNULL, env=dict(os.environ, PYTHONPATH=core.VERIF))
            first = True
            try:
                while i < n:
                    limit = (time_limit if hangs < 3 else min(time_limit, 1.5)) + (20.0 if first else 2.0)
                    ready, _, _ = select.select([proc.stdout], [], [], limit)
                    if not ready:
                        results[i] = dict(hang)
                        hangs += 1
                        i += 1
                        break
                    line = proc.stdout.readline()
                    if not line:
                        results[i] = dict(hang, hang=False, escaped=True, errors='worker process died')
                        i += 1
                        break
                    d = json.loads(line)
                    results[d['i']] = d['res']
                    i = d['i'] + 1
                    first = False
            finally:
                proc.kill()
                proc.wait()
    finally:
        os.unlink(tmp.name)
    return results


def to_trace(body, buf, kind, fields, res, full=True):
    forms = [[s2l(k), [s2l(v) if isinstance(v, str) else s2l('<%r>' % (v,)) for v in vs]] for k, vs in res.get('forms', [])]
    files = [[s2l(k), [[s2l(fn) if isinstance(fn, str) else s2l(repr(fn)), [s2l(c) for c in ct], data] for fn, ct, data in row]]
             for k, row in res.get('files', [])]
    return {'body': list(body), 'maxRead': buf, 'kind': kind, 'full': full,
            'fields': [{'name': s2l(f['name']), 'isfile': 'filename' in f, 'fname': s2l(f.get('filename', '')),
                        'ctype': [s2l(f['ctype'])] if f.get('ctype') else [],
                        'data': list(f['data']) if 'filename' in f else s2l(f['value'])} for f in (fields or [])],
            'status': res['status'], 'escaped': res['escaped'], 'hang': res['hang'], 'forms': forms, 'files': files}


def validate(chk, recs_by_boundary, what, clauses, describe):
    """recs_by_boundary: {boundary bytes: [(trace, meta)]}. One TLC batch (chunked) per boundary."""
    for bnd, items in recs_by_boundary.items():
        traces = [t for t, _ in items]
        extra = {'FT.tla': '---- MODULE FT ----\nEXTENDS FieldsTrace\nTraceBoundary == %s\n====\n' % core.to_tla(list(bnd)),
                 'FT.cfg': open(os.path.join(core.SPECS, 'FieldsTrace.cfg.tmpl')).read()}
        missing, fails = core.validate_records(chk, 'FT', traces, '%s boundary=%r' % (what, bnd[:16]), cfg='FT.cfg', extra_files=extra, nchunks=4)
        bad = set()
        for i, cl in sorted(fails.items()):
            rel = cl & clauses
            if rel:
                bad.add(i)
                describe(items[i][0], items[i][1], sorted(rel), bnd)
        drift = sorted(set(missing) - bad)
        if drift:
            t, m = items[drift[0]]
            chk.drift('%s: %d records differ from the Fields model (first: boundary %r body %r... -> status %s forms %s)'
                      % (what, len(drift), bnd, bytes(t['body'])[:80], t['status'], str(t['forms'])[:100]))
