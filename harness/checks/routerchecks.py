"""C01 / C02 / C11: router. See specs/Router.tla, MC_Router.tla, RouterTrace.tla."""
import json
import os
import random

from harness import core
from harness.checks import routerlib as rl

CLAUSES = {
    'C01': {'Resolve404', 'Route', 'Params', 'Outcome'},
    'C02': {'Resolve404', 'Method', 'Allow', 'Outcome'},
    'C11': {'Resolve404', 'Route', 'Params', 'Method', 'Allow', 'Hooks', 'IndexAgree', 'Outcome', 'Verdict'},
}
VERBS = ['GET', 'HEAD', 'POST', 'DELETE', 'get', 'Head', 'PURGE', 'trace', 'LOCK', 'UNLOCK']      # incl. verbs outside the standard set: they fall back to ANY too
TOKEN = rl.TOKEN


def blank_op(**kw):
    o = {'op': '', 'r': {'id': '', 'pat': [], 'filters': [], 'names': [], 'meths': [], 'name': ''}, 'ow': False, 'pre': [],
         'pat': [], 'meth': '', 'name': ''}
    o.update(kw)
    return o


def norm_r(r):
    return {'id': r['id'], 'pat': list(r['pat']), 'filters': list(r['filters']), 'names': list(r['names']),
            'meths': sorted(r['meths']), 'name': r['name']}


def wsgi_answer(rr, p, v, pat_of):
    """The answer to one request observed through Ombott.__call__ (status, Allow, handler, kwargs, hooks fired), in the
    vocabulary of RouterTrace answers."""
    c = rr.call(p, v, accept=[None, 'application/json', 'text/html', '*/*'][(len(p) + len(v)) % 4],
                forwarded_from=[None, 'GET', 'POST', 'DELETE'][(len(p) * 3 + len(v)) % 4])
    a = {'path': p, 'verb': v.upper(), 'h': '', 'route': [], 'params': [], 'allow': [], 'hooks': []}
    if c['status'] == 404:
        a['k'] = '404'
    elif c['status'] == 405:
        a['k'] = '405'
        a['allow'] = c['allow'].split(',') if c['allow'] else []
    elif c['status'] == 200 and c['h'] is not None:
        a.update(k='ok', h=c['h'], route=pat_of.get(c['h'], []), params=c['kw'],
                 # (a hook is handed the matched prefix of the request PATH, one leading slash: anything else shows as position -1)
                 hooks=[[len(prefix) - 1 if prefix == [47] + p[:len(prefix) - 1] else -1, pat] for pat, prefix in c['fired']])
    else:
        a['k'] = 'status%s' % c['status']
    return a


def run_history(rng, ops, probes, verbs, nprobe, e2e=0, last_nprobe=None, last_e2e=None, nverbs=2, wsgi_last=False, beside=None):
    """Apply ops to a fresh real router; after each op record state and sampled probe answers.
    beside: another router of the same process (rules of its own); every probe is put to it first."""
    rr = rl.RealRouter(rng)
    out = []
    e2e_bad = []
    for idx, op in enumerate(ops):
        if last_nprobe is not None and idx == len(ops) - 1:
            nprobe = last_nprobe
        if last_e2e is not None and idx == len(ops) - 1:
            e2e = last_e2e
        o = blank_op(**op)
        o['r'] = norm_r(o['r'])
        o['outcome'] = rr.apply(o)
        o['st'] = rr.state()
        ans = []
        sample = probes if len(probes) <= nprobe else rng.sample(probes, nprobe)
        for p in sample:
            for v in (verbs if len(verbs) <= nverbs else rng.sample(verbs, nverbs)):
                if beside is not None:
                    beside.resolve(p, v.upper())
                a = rr.resolve(p, v.upper())
                if a.get('k') == 'unobservable':
                    continue
                a.update({'path': p, 'verb': v.upper()})
                a.setdefault('h', '')
                a.setdefault('route', [])
                a.setdefault('params', [])
                a.setdefault('allow', [])
                a.setdefault('hooks', [])
                a.pop('allow_raw', None)
                ans.append(a)
        if wsgi_last and idx == len(ops) - 1:
            # the same questions asked through the WSGI entry point, with "not found" handlers bound to sub-trees
            # (Ombott.error(404, rule)): they answer for paths NO route matches and never change a 200 or a 405
            from ombott import HTTPError
            pat_of = {}
            for op2 in ops:
                r2 = op2.get('r')
                if isinstance(r2, dict) and r2.get('id') and op2['op'] == 'add':
                    pat_of[r2['id']] = norm_r(r2)['pat']
            lits = sorted({tuple(op2['r']['pat'][:i]) for op2 in ops if op2['op'] == 'add' for i, c in enumerate(op2['r']['pat'])
                           if c == 47 and TOKEN not in op2['r']['pat'][:i] and i > 0})
            for pre in lits[:3]:
                try:
                    rr.app.error(404, '/' + rl.l2s(list(pre)))(lambda prefix, values: HTTPError(404, 'nothing here below ' + prefix))
                except Exception:   # noqa -- registration of the auxiliary handler is not what is being judged
                    pass
            for p in sample:
                if TOKEN in p or 10 in p or 13 in p or not p:
                    continue
                for v in verbs:
                    ans.append(wsgi_answer(rr, p, v, pat_of))
        o['ans'] = ans
        o.pop('flavour', None)
        o.pop('spelled', None)
        out.append(o)
        # end to end through Ombott.__call__ for a few probes: status / Allow / kwargs / hooks fired
        for p in (rng.sample(probes, min(e2e, len(probes))) if e2e else []):
            v = rng.choice(verbs)
            if TOKEN in p or 10 in p or not p:
                continue
            a = rr.resolve(p, v.upper())
            if a.get('k') == 'unobservable':
                continue
            c = rr.call(p, v)
            exp_status = {'404': 404, '405': 405}.get(a['k'])
            ok = True
            if exp_status:
                ok = c['status'] == exp_status
                if a['k'] == '405':
                    ok = ok and (c['allow'] or '') == ','.join(sorted(a['allow']))
            else:
                ok = c['status'] == 200 and c['h'] == a['h'] and c['kw'] == a['params'] and \
                    [f[0] for f in c['fired']] == [h[1] for h in a['hooks']] and \
                    all(f[1] == [47] + p[:h[0]] for f, h in zip(c['fired'], a['hooks']))
            if not ok:
                e2e_bad.append({'path': p, 'verb': v, 'resolve': a, 'wsgi': c})
    return out, e2e_bad


def validate(chk, pid, traces, what, names=True, nchunks=8):
    if not traces:
        return
    nchunks = max(1, min(nchunks, len(traces) // 4 or 1))
    chunks = [list(range(i, len(traces), nchunks)) for i in range(nchunks)]

    def one(idxs):
        ws = core.tla_workspace()
        path = os.path.join(ws, 'traces.json')
        with open(path, 'w') as fh:
            json.dump([{'ops': traces[i]} for i in idxs], fh)
        r = core.run_tlc(ws, 'RouterTrace', 'RouterTrace.cfg' if names else 'RouterTrace_nonames.cfg', workers=1,
                         env={'TRACE_FILE': path}, timeout=3600)
        return idxs, r
    missing = set()
    fails = {}
    mfirst = {}
    for idxs, r in core.parallel([(lambda c=c: one(c)) for c in chunks], max_workers=8):
        chk.add_tlc(r, 'RouterTrace %s (%d histories, %d ops)' % (what, len(idxs), sum(len(traces[i]) for i in idxs)))
        mm = r.printed_json('MECH_MISSING')
        pf = r.printed_json('PROP_FAILS')
        mf = r.printed_json('MECH_FIRST')
        if not mm or not pf:
            raise core.MachineryError('trace validation produced no report:\n' + r.out[-3000:])
        for x in mm[-1]:
            missing.add(idxs[int(x) - 1] + 1)
        for tid, clause, step in pf[-1]:
            fails.setdefault(idxs[int(tid) - 1] + 1, []).append((clause, int(step)))
        for tid, step in (mf[-1] if mf else []):
            mfirst[idxs[int(tid) - 1] + 1] = int(step)
    clauses = CLAUSES[pid]
    bad = set()
    for tid, lst in sorted(fails.items()):
        rel = sorted(set(c for c, _ in lst if c in clauses))
        if not rel:
            continue
        bad.add(tid)
        t = traces[tid - 1]
        step = min(s for c, s in lst if c in clauses)
        hist = [describe(o) for o in t[:step]]
        pats = [o['r']['pat'] for o in t[:step] if o['op'] == 'add']
        names_by_pat = {}
        for o in t[:step]:
            if o['op'] == 'add':
                names_by_pat.setdefault(tuple(o['r']['pat']), set()).add(tuple(o['r']['names']))
        shared = any(len(v) > 1 for v in names_by_pat.values())
        case = {'clauses': rel, 'history': hist, 'ops': [strip_op(o) for o in t[:step]],
                'same_pattern_different_names': shared and rel == ['Params']}
        chk.violation('%s: %s fails after history %s' % (pid, rel, hist[-6:]), case)
    drift = [tid for tid in sorted(missing) if tid not in bad]
    if drift:
        t = traces[drift[0] - 1]
        st = mfirst.get(drift[0], 0)
        chk.drift('%s: %d histories whose projected tree/indexes/outcome differ from the model (first: step %d of %s; real outcome %s)'
                  % (what, len(drift), st, [describe(o) for o in t][max(0, st - 4):st], t[st - 1]['outcome'] if st else '?'))
    chk.traces_validated += len(traces) - len(bad | missing)


def strip_op(o):
    return {k: o[k] for k in ('op', 'r', 'ow', 'pre', 'pat', 'meth', 'name', 'outcome')}


def describe(o):
    k = o['op']
    if k in ('add', 'remove_rule', 'add_hook', 'remove_hook'):
        r = o['r']
        s = '%s %s' % (k, rl.render(r['pat'], r['filters'], r['names'], None, 0))
        if k == 'add':
            s += ' %s%s%s' % (','.join(r['meths']), ' name=' + r['name'] if r['name'] else '', ' overwrite' if o['ow'] else '')
        return s + (' -> ' + o['outcome'] if o.get('outcome', 'ok') != 'ok' else '')
    if k == 'remove_name':
        return 'remove name=%s' % o['name']
    if k == 'remove_obj':
        return 'remove route-object %r' % rl.l2s(o['pat'])
    if k == 'remove_prefix':
        return 'remove /%s*' % rl.l2s(o['pre'])
    if k == 'remove_method':
        return 'remove_method %r %s' % (rl.l2s(o['pat']), o['meth'])
    return k


# ---------------------------------------------------------------------------
# random universes far beyond the model's constants

SEGS = ['a', 'ab', 'abc', 'b', 'ad', 'x', 'wiki', 'e', 'p', '1', 'é', 'a-b']


def rand_universe(rng, n, with_methods=False):
    uni = []
    for i in range(n):
        nseg = rng.choice([1, 2, 2, 3, 4])
        pat, filters, names = [], [], []
        for s in range(nseg):
            if s:
                pat.append(47)
            kind = rng.choice(['lit', 'lit', 'lit', 'wild', 'int', 'float', 're', 'rel', 'mix'])
            if kind == 'lit':
                pat += rl.s2l(rng.choice(SEGS))
            elif kind == 'mix':
                pat += rl.s2l(rng.choice(SEGS)) + [TOKEN]
                filters.append('None')
                names.append('m%d' % len(names))
            else:
                pat.append(TOKEN)
                f = {'wild': 'None', 'int': 'int(None)', 'float': 'float(None)', 're': 're(to.)', 'rel': 're([a-z]+)'}[kind]
                if kind == 're' and rng.random() < 0.4:
                    f = 're(^to.)'
                if kind == 'rel' and rng.random() < 0.4:
                    f = 're(\\b[a-z]+)'
                filters.append(f)
                names.append(rng.choice(['', 'x', 'y', 'name', 'n%d' % len(names)]) if kind != 'wild' or True else '')
        if rng.random() < 0.12:
            # path filter: its argument is the literal that follows
            tail = rng.choice([[], [47, 101], [101]])
            pat += [47, TOKEN] + tail
            filters.append('path(%s)' % rl.l2s(tail))
            names.append('pth')
        # anonymous plain wildcards can only be written ':' at a segment end
        ti = 0
        for j, c in enumerate(pat):
            if c == TOKEN:
                nxt = pat[j + 1] if j + 1 < len(pat) else None
                if names[ti] == '' and filters[ti] == 'None' and nxt is not None:
                    names[ti] = 'w%d' % ti
                ti += 1
        # distinct names inside one rule
        seen = set()
        for j, nm in enumerate(names):
            if nm and nm in seen:
                names[j] = nm + str(j)
            seen.add(names[j])
        meths = ['GET']
        if with_methods:
            # incl. extension verbs one of whose names contains the other
            meths = rng.sample(['GET', 'HEAD', 'POST', 'PUT', 'ANY', 'get', 'Post', 'LOCK', 'UNLOCK', 'LINK', 'UNLINK'], rng.randint(1, 4))
        uni.append({'id': 'u%d' % i, 'pat': pat, 'filters': filters, 'names': names,
                    'meths': sorted(set(m.upper() for m in meths)), 'meths_spelled': meths,
                    'name': rng.choice(['', '', '', 'nm1', 'nm2', 'nm%d' % i])})
    return uni


def rand_history(rng, uni, n, kinds):
    ops = []
    for _ in range(n):
        k = rng.choice(kinds)
        r = rng.choice(uni)
        if k == 'add':
            ops.append({'op': 'add', 'r': r, 'ow': rng.random() < 0.25, 'spelled': r.get('meths_spelled')})
        elif k == 'remove_rule':
            ops.append({'op': 'remove_rule', 'r': r})
        elif k == 'remove_name':
            ops.append({'op': 'remove_name', 'name': rng.choice(['nm1', 'nm2', r['name'] or 'nm1'])})
        elif k == 'remove_obj':
            ops.append({'op': 'remove_obj?', 'r': r})
        elif k == 'remove_prefix':
            pre = r['pat'][:rng.randint(1, max(1, len(r['pat'])))]
            if rng.random() < 0.3 and pre and pre[-1] not in (47, TOKEN):
                # a prefix that matches no rule but shares the beginning of an edge with one: nothing may be removed
                pre = pre[:-1] + [rng.choice([120, 98, 97, 49])]
            if TOKEN not in pre:
                ops.append({'op': 'remove_prefix', 'pre': pre})
        elif k == 'remove_method':
            ops.append({'op': 'remove_method', 'pat': r['pat'], 'meth': rng.choice(r['meths'] + ['GET'])})
        elif k == 'add_hook':
            cut = [i for i, c in enumerate(r['pat']) if c == 47] + [len(r['pat'])]
            j = rng.choice(cut)
            pat = r['pat'][:j]
            nt = pat.count(TOKEN)
            if pat and not any(f.startswith('path') for f in r['filters'][:nt]):
                ops.append({'op': rng.choice(['add_hook', 'add_hook', 'remove_hook']),
                            'r': {'id': 'h', 'pat': pat, 'filters': r['filters'][:nt], 'names': [nm or 'hn%d' % i for i, nm in enumerate(r['names'][:nt])],
                                  'meths': [], 'name': ''}})
    return ops


def fix_ops(rr_ops):
    return rr_ops


def run(chk, pid):
    rng = random.Random(chk.seed * 104729 + int(pid[1:]))
    thorough = chk.tier == 'thorough'
    # 1. design level
    jobs = []
    incomplete = []

    def mc(module, cfg, what):
        def job():
            ws = core.tla_workspace()
            r = core.run_tlc(ws, module, cfg, allow_violation=True, workers=8, timeout=3000, budget=1500 if cfg.endswith('_t.cfg') else None)
            chk.add_tlc(r, what + ('' if r.complete else ' (stopped by the time budget: breadth-first prefix of the state space)'))
            if not r.complete:
                incomplete.append(cfg)
            if not r.ok:
                raise core.MachineryError('model-level invariant violated (%s): %s\n%s' % (cfg, r.violated, r.out[-2500:]))
            return []
        return job

    def cover(cfg, simulate=None):
        def job():
            ws = core.tla_workspace()
            r = core.run_tlc(ws, 'MC_RouterCover', cfg, workers=1, simulate=simulate, depth=14 if simulate else None,
                             seed=chk.seed + 11, timeout=3000)
            chk.add_tlc(r, ('simulate ' if simulate else 'state cover ') + cfg)
            return r.printed_json('W')
        return job
    jobs.append(mc('MC_Router_q', 'MC_Router_q.cfg', 'exhaustive edit histories + all probes'))
    jobs.append(cover('MC_RouterCover_q.cfg'))
    jobs.append(cover('MC_RouterSim_t.cfg', simulate='num=%d' % (1500 if thorough else 150)))
    if thorough:
        jobs.append(mc('MC_Router_q', 'MC_Router_t.cfg', 'exhaustive edit histories + all probes, larger universe, 5 operations'))
    res = core.parallel(jobs, max_workers=4)
    chk.exhaustive = True        # MC_Router_q.cfg always runs to completion
    if incomplete:
        chk.note('the thorough exhaustive configuration %s did not finish within its time budget: the states explored (breadth first) '
                 'hold the invariants; the quick configuration (MC_Router_q.cfg) is exhaustive' % incomplete)
    wl = res[1] + res[2]
    if not thorough and len(wl) > 1700:
        wl = rng.sample(res[1], min(len(res[1]), 1500)) + res[2][:150]
    # 2. spec -> code: TLC histories on the real router
    traces = []
    e2e_bad = []
    alphabet = [97, 98, 100, 101, 112, 47, 49, TOKEN]
    for hist in wl:
        uni = [o['r'] for o in hist if o['op'] in ('add', 'remove_rule')]
        probes = rl.instances(uni or [{'pat': [97]}], alphabet, rng)
        ops = []
        for o in hist:
            o = dict(o)
            o['flavour'] = rng.randrange(12)
            ops.append(o)
        t, bad = run_history(rng, ops, probes, ['GET', 'HEAD', 'POST', 'DELETE'], 0, e2e=0, last_nprobe=60, last_e2e=3)
        traces.append(t)
        e2e_bad += bad
        chk.count(1, ('tlc', json.dumps([strip_op(o) for o in t])[:400]))
    if wl:
        chk.sample({'kind': 'tlc-history', 'ops': [describe(blank_op(**o)) for o in wl[len(wl) // 2]]})
    validate(chk, pid, traces, 'TLC histories replayed')
    # 3. code -> spec: random universes / histories
    traces = []
    nhist = {'C01': 60, 'C02': 60, 'C11': 60}[pid] * (10 if thorough else 1)
    for _ in range(nhist):
        if pid == 'C01':
            uni = rand_universe(rng, rng.choice([3, 6, 12, 25, 40]))
            # several rules on one pattern: same pattern and filters, other wildcard names, another method
            for r in list(uni):
                if r['names'] and rng.random() < 0.35:
                    r2 = dict(r, id=r['id'] + 'b', names=[(n + 'z') if n else rng.choice(['', 'q%d' % i]) for i, n in enumerate(r['names'])],
                              meths=['POST'], meths_spelled=['POST'], name='')
                    ti = 0
                    for j, c in enumerate(r2['pat']):
                        if c == TOKEN:
                            nxt = r2['pat'][j + 1] if j + 1 < len(r2['pat']) else None
                            if r2['names'][ti] == '' and r2['filters'][ti] == 'None' and nxt is not None:
                                r2['names'][ti] = 'w%dz' % ti
                            ti += 1
                    uni.append(r2)
            ops = [{'op': 'add', 'r': r, 'ow': False, 'spelled': None} for r in uni]
            rng.shuffle(ops)
        elif pid == 'C02':
            uni = rand_universe(rng, rng.choice([3, 6, 10]), with_methods=True)
            # several rules (= handlers) on one pattern with different method sets
            for r in list(uni):
                if rng.random() < 0.5:
                    have = set(r['meths'])
                    rest = [m for m in ['GET', 'HEAD', 'POST', 'ANY', 'PUT'] if m not in have]
                    ms = rng.sample(rest, rng.randint(1, min(2, len(rest))))
                    uni.append(dict(r, id=r['id'] + 's', meths=sorted(ms), meths_spelled=ms, name=''))
            ops = rand_history(rng, uni, rng.choice([6, 12, 25]), ['add', 'add', 'add', 'remove_method'])
        else:
            uni = rand_universe(rng, rng.choice([4, 8, 25]), with_methods=rng.random() < 0.4)
            ops = rand_history(rng, uni, 40 if rng.random() < 0.3 else 14,
                               ['add', 'add', 'add', 'remove_rule', 'remove_name', 'remove_prefix', 'remove_method', 'add_hook', 'add_hook'])
        # avoid two different names for one pattern unless C01 explores it on purpose
        ops2 = []
        hookpats = [o['r']['pat'] for o in ops if o['op'] in ('add_hook', 'remove_hook')]
        for o in ops:
            if o['op'] == 'remove_obj?':
                continue
            # prefix-wildcard removal is specified for routes only: not on prefixes with hooks beneath
            if o['op'] == 'remove_prefix' and any(h[:len(o['pre'])] == o['pre'] for h in hookpats):
                continue
            if 'flavour' not in o:
                o['flavour'] = rng.randrange(12)
            ops2.append(o)
        probes = rl.instances(uni, [97, 98, 47, 49, 45, TOKEN, 233, 101], rng)
        if len(probes) > 600:
            probes = rng.sample(probes, 600)
        verbs = VERBS if pid != 'C01' else ['GET', 'POST']
        t, bad = run_history(rng, ops2, probes, verbs, 8 if pid != 'C01' else 2, e2e=1, last_nprobe=None if pid != 'C01' else 120)
        traces.append(t)
        e2e_bad += bad
        chk.count(1, ('rand', json.dumps([strip_op(o) for o in t])[:600]))
    # dense histories: a few rules, every operation followed by EVERY probe with every verb, so that anything remembered from
    # an earlier answer (cached Allow strings, cached matches, indexes by name) meets the edit that should have invalidated it
    for it in range(400 if thorough else 45):
        uni = rand_universe(rng, rng.choice([2, 3]), with_methods=True)
        for r in list(uni):
            have = set(r['meths'])
            rest = [m for m in ['GET', 'HEAD', 'POST', 'ANY', 'PUT'] if m not in have]
            ms = rng.sample(rest, rng.randint(1, min(2, len(rest))))
            uni.append(dict(r, id=r['id'] + 's', meths=sorted(ms), meths_spelled=ms, name=''))
        named = [r for r in uni if r['name']]
        tmpl = it % 3
        if it % 7 == 6:
            # a wildcard rule answers a path; then a literal rule for exactly that path is registered (and removed again)
            seg = rl.s2l(rng.choice(['files', 'docs', 'a']))
            leaf = rl.s2l(rng.choice(['readme', 'api', 'b1']))
            tail = rng.choice([[], rl.s2l('/index')])
            rw = {'id': 'wild%d' % it, 'pat': seg + [47, TOKEN] + tail, 'filters': ['None'], 'names': ['name'], 'meths': ['GET'], 'meths_spelled': ['GET'], 'name': ''}
            rlit = {'id': 'lit%d' % it, 'pat': seg + [47] + leaf + tail, 'filters': [], 'names': [], 'meths': ['GET'], 'meths_spelled': ['GET'], 'name': ''}
            uni = [rw, rlit]
            ops = [{'op': 'add', 'r': rw, 'ow': False, 'spelled': None}, {'op': 'add', 'r': rlit, 'ow': False, 'spelled': None},
                   {'op': 'remove_rule', 'r': rlit}, {'op': 'add', 'r': rlit, 'ow': False, 'spelled': None}]
        elif tmpl == 0:      # method-set edits on one pattern
            r = rng.choice(uni)
            r2 = rng.choice([x for x in uni if x['pat'] == r['pat']])
            ops = [{'op': 'add', 'r': r, 'ow': False, 'spelled': r.get('meths_spelled')},
                   {'op': 'add', 'r': r2, 'ow': True, 'spelled': r2.get('meths_spelled')},
                   {'op': 'remove_method', 'pat': r['pat'], 'meth': rng.choice(r['meths'] + r2['meths'])},
                   {'op': 'add', 'r': r, 'ow': True, 'spelled': r.get('meths_spelled')},
                   {'op': 'add', 'r': r2, 'ow': False, 'spelled': r2.get('meths_spelled')}]
            if r['names'] and any(r['names']):
                # the same pattern and verbs registered again under other wildcard names: the handler that answers gets ITS names
                r3 = dict(r, id=r['id'] + 'w', names=[(n + 'w') if n else n for n in r['names']], name='')
                ops += [{'op': 'add', 'r': r3, 'ow': True, 'spelled': r3.get('meths_spelled')}]
            if it % 2:
                rlk = dict(r, id=r['id'] + 'lk', meths=['LINK', 'LOCK', 'UNLINK', 'UNLOCK'], meths_spelled=['LOCK', 'UNLOCK', 'LINK', 'UNLINK'], name='')
                ops += [{'op': 'add', 'r': rlk, 'ow': True, 'spelled': rlk['meths_spelled']},
                        {'op': 'remove_method', 'pat': r['pat'], 'meth': rng.choice(['UNLOCK', 'UNLINK'])}]
            ops += rand_history(rng, uni, 3, ['add', 'remove_method', 'remove_rule'])
        elif tmpl == 1 and named:    # names: removal by prefix / rule / name and re-use of the name
            r = rng.choice(named)
            other = rng.choice([x for x in uni if x['pat'] != r['pat']] or [r])
            cut = [i for i, c in enumerate(r['pat']) if c == 47 and TOKEN not in r['pat'][:i]]
            pre = r['pat'][:rng.choice(cut)] if cut else r['pat'][:1]
            ops = [{'op': 'add', 'r': r, 'ow': False, 'spelled': None}, {'op': 'add', 'r': other, 'ow': False, 'spelled': None}]
            if pre and TOKEN not in pre:
                ops.append({'op': 'remove_prefix', 'pre': pre})
            ops += [{'op': 'add', 'r': dict(other, name=r['name'], id=other['id'] + 'n'), 'ow': True, 'spelled': None},
                    {'op': 'remove_name', 'name': r['name']},
                    {'op': 'add', 'r': r, 'ow': False, 'spelled': None}]
        else:
            ops = rand_history(rng, uni, 8, ['add', 'add', 'remove_rule', 'remove_name', 'remove_method', 'add_hook', 'remove_prefix'])
            for o in ops:
                if o['op'] == 'add' and rng.random() < 0.5:
                    o['ow'] = True
        hookpats = [o['r']['pat'] for o in ops if o['op'] in ('add_hook', 'remove_hook')]
        ops2 = []
        for o in ops:
            if o['op'] == 'remove_obj?' or (o['op'] == 'remove_prefix' and any(h[:len(o['pre'])] == o['pre'] for h in hookpats)):
                continue
            o.setdefault('flavour', rng.randrange(12))
            ops2.append(o)
        reinstall = False
        if pid == 'C11' and it % 5 in (2, 4):
            # a hook below a prefix, the prefix removed by wildcard (what happens to the hook then is not specified), the
            # route registered again and the hook INSTALLED AGAIN at the same rule: from here on it must fire like on a
            # fresh router; answers are judged only after the last operation
            cand = [r for r in uni if [i for i, c in enumerate(r['pat']) if c == 47 and i > 0 and TOKEN not in r['pat'][:i]]]
            if cand:
                r = rng.choice(cand)
                cuts = [i for i, c in enumerate(r['pat']) if c == 47 and i > 0 and TOKEN not in r['pat'][:i]]
                hp = r['pat'][:rng.choice(cuts)]
                pre = hp[:rng.randint(1, max(1, len(hp) - 1))]      # a proper prefix: the hook's node lies strictly inside the removed sub-tree
                hook_r = {'id': 'h', 'pat': hp, 'filters': [], 'names': [], 'meths': [], 'name': ''}
                # a sibling that leaves the common prefix before the hook's node, so that the hook's node lies strictly inside
                # the removed sub-tree
                sib = {'id': r['id'] + 'sib', 'pat': pre + [122, 122, 47, 113], 'filters': [], 'names': [], 'meths': ['GET'], 'name': ''}
                uni = uni + [sib]
                ops2 = [{'op': 'add', 'r': r, 'ow': False, 'spelled': None, 'flavour': rng.randrange(12)},
                        {'op': 'add', 'r': sib, 'ow': False, 'spelled': None, 'flavour': 0},
                        {'op': 'add_hook', 'r': hook_r, 'flavour': rng.randrange(12)},
                        {'op': 'remove_prefix', 'pre': pre},
                        {'op': 'add', 'r': r, 'ow': True, 'spelled': None, 'flavour': rng.randrange(12)},
                        {'op': 'add_hook', 'r': hook_r, 'flavour': rng.randrange(12)}]
                reinstall = True
        retype = None
        if pid == 'C11' and it % 9 in (3, 8) and not reinstall:
            # a wildcard position held by a hook and by routes below it is vacated completely (in either order), then the
            # position is registered again with ANOTHER wildcard type: a freshly built router has no reason to refuse
            seg = rl.s2l(rng.choice(['item', 'u', 'a']))
            f1, f2 = rng.sample(['None', 'int(None)', 're([a-z]+)', 'float(None)'], 2)
            hp = seg + [47, TOKEN]
            hook_r = {'id': 'h', 'pat': hp, 'filters': [f1], 'names': ['id'], 'meths': [], 'name': ''}
            below = [{'id': 'bel%d_%d' % (it, j), 'pat': hp + [47] + rl.s2l(leaf), 'filters': [f1], 'names': ['id'], 'meths': ['GET'],
                      'meths_spelled': ['GET'], 'name': ''} for j, leaf in enumerate(rng.sample(['x', 'edit', 'x1'], rng.choice([1, 2])))]
            again = {'id': 'again%d' % it, 'pat': hp + rng.choice([[], [47] + rl.s2l('x')]), 'filters': [f2], 'names': ['slug'], 'meths': ['GET'],
                     'meths_spelled': ['GET'], 'name': ''}
            keep = {'id': 'keep%d' % it, 'pat': seg + rl.s2l('s'), 'filters': [], 'names': [], 'meths': ['GET'], 'meths_spelled': ['GET'], 'name': ''}
            uni = below + [again, keep]
            rm = [{'op': 'remove_rule', 'r': b} for b in below]
            rmh = [{'op': 'remove_hook', 'r': hook_r}]
            first = [{'op': 'add_hook', 'r': hook_r}] + [{'op': 'add', 'r': b, 'ow': False, 'spelled': None} for b in below]
            if it % 2:
                first.reverse()
            ops2 = [{'op': 'add', 'r': keep, 'ow': False, 'spelled': None}] + first + \
                   [{'op': 'add', 'r': again, 'ow': False, 'spelled': None}] + \
                   (rm + rmh if it % 9 == 3 else rmh + rm) + \
                   [{'op': 'add', 'r': again, 'ow': False, 'spelled': None}, {'op': 'add_hook', 'r': dict(hook_r, filters=[f2])}]
            for o in ops2:
                o.setdefault('flavour', rng.randrange(12))
            retype = again
        diverge = None
        if pid == 'C11' and it % 5 == 1 and not reinstall and retype is None:
            # removal by a prefix that NO rule starts with but that shares the beginning of an edge with registered rules
            # (leaves the edge after one or more common characters): nothing may be removed, every survivor stays intact
            def inner_cuts(r):
                return [i + 1 for i, c in enumerate(r['pat'][:-1]) if c not in (47, TOKEN) and r['pat'][i + 1] not in (47, TOKEN) and TOKEN not in r['pat'][:i + 2]]
            cand = [r for r in uni if inner_cuts(r)]
            if cand:
                r = rng.choice(cand)
                j = rng.choice(inner_cuts(r))
                pre = r['pat'][:j] + [rng.choice([c for c in (120, 98, 97, 49, 122) if c != r['pat'][j]])]
                mates = [x for x in uni if x['pat'][:max(1, j - 1)] == r['pat'][:max(1, j - 1)] and x['pat'] != r['pat']][:2]
                ops2 = [{'op': 'add', 'r': x, 'ow': False, 'spelled': None, 'flavour': rng.randrange(12)} for x in [r] + mates] + \
                       [{'op': 'remove_prefix', 'pre': pre}] + ops2[:3]
                diverge = r
        probes = rl.instances(uni, [97, 47, 49, TOKEN], rng)
        if len(probes) > 10:
            probes = rng.sample(probes, 10)
        if diverge is not None:
            probes = rl.instances([diverge], [], rng)[:12] + probes[:6]
        if it % 7 == 6:
            probes = [rlit['pat'], seg + [47] + rl.s2l('zz') + tail] + probes[:6]
        if retype is not None:
            probes = rl.instances([retype], [], rng)[:10] + probes[:4]
        if reinstall:
            # every instance of the rule under the re-installed hook
            probes = [q for q in rl.instances([r], [], rng) if q[:len(hp)] == hp][:40] + probes[:4]
        dverbs = ['GET', 'HEAD', 'POST', 'PUT', 'PURGE', 'LOCK', 'UNLOCK', 'LINK']
        beside = None
        if it % 4 == 1:
            # another router lives in the process (another application, a plug-in) with rules of its own over the same paths;
            # it is asked every probe just before the router under test is
            beside = rl.RealRouter(rng)
            for x in rng.sample(uni, min(4, len(uni))):
                beside.apply(blank_op(op='add', r=norm_r(dict(x, id=x['id'] + 'o')), ow=True, flavour=0))
        t, bad = run_history(rng, ops2, probes, dverbs, 0 if reinstall else len(probes), e2e=0, nverbs=len(dverbs), wsgi_last=True,
                             last_nprobe=len(probes), beside=beside)
        traces.append(t)
        e2e_bad += bad
        chk.count(1, ('dense', json.dumps([strip_op(o) for o in t])[:600]))
    chk.sample({'kind': 'random-history', 'ops': [describe(o) for o in traces[0]][:10],
                'answers': [[rl.l2s(a['path']), a['verb'], a['k'], a['h']] for a in traces[0][-1]['ans'][:6]]})
    validate(chk, pid, traces, 'random universes')
    for b in e2e_bad[:5]:
        chk.violation('%s: Ombott.__call__ disagrees with RadiRouter.resolve for %r %s: resolve=%s wsgi=%s'
                      % (pid, rl.l2s(b['path']), b['verb'], json.dumps(b['resolve'])[:200], json.dumps(b['wsgi'])[:200]),
                      {'e2e': True, 'path': b['path'], 'verb': b['verb'], 'clauses': ['EndToEnd']})
    if pid == 'C01':
        rule_syntax(chk, rng, thorough)
        unicode_classes(chk)
    chk.extra['assumptions'] = ['Python re is trusted; only the filter family {plain, int, float, re(to.), re([a-z]+), path} is modelled',
                                'request paths are compared after strip("/") as resolve documents; rex selectors are out of scope',
                                'prefix-wildcard removal is exercised only on prefixes without hooks beneath']
    chk.extra['rule'] = ('TLC state-cover + simulated edit histories replayed on the real router in random syntax flavours, and random '
                         'rule universes/histories; after every operation the projected tree/indexes and sampled probe answers are '
                         'recorded and judged by TLC against the rule-by-rule reference; distinct by operation sequence')


def unicode_classes(chk):
    """Filters written with the character classes of the expression language (\\w, \\d: classes that cannot reach across a separator) on paths with non-ASCII
    text.  The plain rule-by-rule matcher is the expression language itself: the rule, written out as ONE expression over
    the whole path, is matched with Python's re; the router must select the rule exactly when that matches and bind the
    same texts.  (Judged in the harness: these expressions are outside the transcribed filter set of Router.tla.)"""
    import re
    from ombott import Ombott
    from harness.checks.bodylib import base_environ, call_app
    cases = [('/user/<name:re(\\w+)>/posts', r'user/(?P<name>\w+)/posts', ['/user/zo\xeb/posts', '/user/bob/posts', '/user/\u0416\u0443\u043a/posts', '/user/a-b/posts']),
             ('/w/<a:re(\\w+)><b:re(.*)>', r'w/(?P<a>\w+)(?P<b>.*)', ['/w/caf\xe9!', '/w/abc!', '/w/\u4e2d\u6587.x']),
             ('/n/<num:re(\\d+)>', r'n/(?P<num>\d+)', ['/n/\u0663\u0664', '/n/34', '/n/x'])]
    for rule, whole, paths in cases:
        app = Ombott()
        got = {}

        def h(**kw):
            got.update(kw)
            return 'ok'
        app.route(rule, callback=h)
        for path in paths:
            got.clear()
            ref = re.fullmatch(whole, path.strip('/'))
            status, line, headers, body, nsr = call_app(app, base_environ(PATH_INFO=path.encode('utf8').decode('latin1')))
            chk.count(1, ('unicode-class', rule, path))
            ok = (status == 200 and dict(got) == ref.groupdict()) if ref else status == 404
            if not ok:
                chk.violation("C01: ['Resolve404' or 'Params'] fails: rule %r on path %r -> status %s, handler got %s; the rule as one expression %s"
                              % (rule, path, status, dict(got), ('matches with %s' % ref.groupdict()) if ref else 'does not match'),
                              {'rule': rule, 'path': path, 'clauses': ['Params' if status == 200 else 'Resolve404'], 'unicode_class': True})


def rule_syntax(chk, rng, thorough):
    """C01 'in every rule syntax flavour': the rule parser is transcribed in specs/RuleParser.tla; TLC checks that every
    flavour of every abstract rule parses back to it, the same texts and random rule strings go through the real
    Route.parse_rule, and TLC judges the records."""
    import itertools
    from ombott.router.radirouter import Route
    ws = core.tla_workspace()
    r = core.run_tlc(ws, 'MC_RuleParser', 'MC_RuleParser.cfg', allow_violation=True)
    chk.add_tlc(r, 'exhaustive MC_RuleParser (flavour equivalence)')
    if not r.ok:
        raise core.MachineryError('model-level RuleParser: %s' % r.violated)
    r = core.run_tlc(ws, 'MC_RuleParserCover', 'MC_RuleParserCover.cfg', workers=1)
    chk.add_tlc(r, 'flavour enumeration MC_RuleParserCover')
    proj = rl.Proj()

    def real(text):
        try:
            pat, params, filters, _po, _fo = Route.parse_rule('/' + text)
            return {'ok': True, 'pat': rl.s2l(pat), 'names': [rl.s2l('' if p.startswith('anon-') else p) for p in params],
                    'fkeys': [rl.s2l('' if f is None else proj.fkey(f)) for f in filters]}
        except Exception as e:   # noqa
            return {'ok': False, 'pat': [], 'names': [], 'fkeys': [], 'exc': type(e).__name__}
    recs = []
    unknown = [0]

    def judged(t):
        # without a way to tell which filter a handler object stands for, the filter part of the parse cannot be compared
        if any(f == rl.s2l('?') for f in t['fkeys']):
            unknown[0] += 1
            t['fkeys'] = list(t['want']['fkeys'])
        return t
    for w in r.printed_json('W'):
        t = real(rl.l2s(w['text']))
        t.update(kind='rendered', text=w['text'], want={k: w['want'][k] for k in ('pat', 'names', 'fkeys')})
        recs.append(judged(t))
        chk.count(1, ('syntax', tuple(w['text'])))
    alpha = 'a/:<>{}.()int'
    texts = [''.join(t) for n in range(0, 5 if thorough else 4) for t in itertools.product(alpha, repeat=n)]
    for _ in range(6000 if thorough else 1500):
        texts.append(''.join(rng.choice(alpha + 'refloatpath1_:<{') for _ in range(rng.randint(4, 14))))
    # a path wildcard followed by literal text and a further wildcard in each syntax flavour: the look-ahead of `path` is the
    # literal text up to the next wildcard, however that one is written
    for w2, n2, f2 in ((':action', 'action', ''), ('<action>', 'action', ''), ('{action}', 'action', ''), ('<action:int>', 'action', 'int(None)'),
                       ('{n.int()}', 'n', 'int()'), (':', '', '')):
        for lit in ('/', '/do/', '-', '/e/'):
            if w2.startswith(':') and not lit.endswith('/'):
                continue        # the colon form starts a segment
            for w1, n1 in (('<fp:path>', 'fp'), ('{fp.path()}', 'fp'), ('<fp.path>', 'fp'), ('{path()}', ''), ('<:path>', '')):
                tx = 'files/' + w1 + lit + w2
                t = real(tx)
                # the abstract rule every one of these spellings stands for
                t.update(kind='rendered', text=rl.s2l(tx),
                         want={'pat': rl.s2l('files/') + [TOKEN] + rl.s2l(lit) + [TOKEN], 'names': [rl.s2l(n1), rl.s2l(n2)],
                               'fkeys': [rl.s2l('path(%s)' % lit), rl.s2l(f2)]})
                recs.append(judged(t))
                chk.count(1, ('syntax-path-lookahead', tx))
    for tx in texts:
        if '[' in tx or '\\' in tx:
            continue
        t = real(tx)
        t.update(kind='random', text=rl.s2l(tx), want={'pat': [], 'names': [], 'fkeys': []})
        recs.append(t)
        chk.count(1, ('syntax-random', tx))
    missing, fails = core.validate_records(chk, 'RuleParserTrace', recs, 'rule syntax', strip=lambda t: {k: v for k, v in t.items() if k != 'exc'})
    for i, cl in sorted(fails.items()):
        t = recs[i]
        chk.violation('C01: rule text %r does not parse to the rule it was written for: got %s, wanted %s'
                      % ('/' + rl.l2s(t['text']), {k: t[k] for k in ('ok', 'pat', 'names', 'fkeys')}, t['want']),
                      {'clauses': ['FlavourEquiv'], 'rule_text': '/' + rl.l2s(t['text'])})
    if unknown[0]:
        chk.drift('rule syntax: the filter behind %d parsed wildcards could not be identified (the factory keeps no table of them): '
                  'pattern and names are still compared, filters are not' % unknown[0])
    drift = sorted(set(missing) - set(fails))
    if drift:
        t = recs[drift[0]]
        chk.drift('rule syntax: %d rule strings parse differently from the RuleParser transcription (first: %r -> ok=%s %s)'
                  % (len(drift), '/' + rl.l2s(t['text']), t['ok'], t.get('exc', '')))


def replay(path, pid):
    d = json.load(open(path))
    case = d['case']
    print(json.dumps(case.get('history'), indent=1))
    if 'ops' not in case:
        return 1
    rng = random.Random(0)
    ops = [dict(o, flavour=0) for o in case['ops']]
    uni = [o['r'] for o in ops if o['op'] in ('add',)]
    probes = rl.instances(uni, [97, 98, 47, 49, TOKEN], rng)
    t, bad = run_history(rng, ops, probes, ['GET', 'HEAD', 'POST', 'DELETE'], 10 ** 6)
    chk = core.Check(pid, 'quick', 0)
    validate(chk, pid, [t], 'replay')
    return 1 if chk.violations else 0
