"""Driving / projecting the real router (C01, C02, C11, C19)."""
import json
import os

from harness import core

TOKEN = 13


def s2l(s):
    return [ord(c) for c in s]


def l2s(lst):
    return ''.join(map(chr, lst))


# ---------------------------------------------------------------------------
# abstract rule -> rule text, in one of the syntax flavours

def render(pat, filters, names, rng, flavour=None):
    """pat: list of code points with TOKEN for wildcards; filters: fkeys or "None"; names: '' = anonymous."""
    out = '/'
    ti = 0
    n = len(pat)
    i = 0
    while i < n:
        c = pat[i]
        if c != TOKEN:
            out += chr(c)
            i += 1
            continue
        f, name = filters[ti], names[ti]
        ti += 1
        nxt = pat[i + 1] if i + 1 < n else None
        i += 1
        opts = []
        if f == 'None':
            if name:
                opts += ['<%s>' % name, '{%s}' % name]
                if nxt in (None, 47):
                    opts.append(':%s' % name)
            else:
                if nxt is None:
                    opts.append(':')
                else:
                    raise ValueError('an anonymous plain wildcard can only be written ":" at the very end of a rule')
        elif f in ('int(None)', 'float(None)'):
            k = f.split('(')[0]
            if name:
                opts += ['<%s:%s>' % (name, k), '{%s:%s}' % (name, k), '<%s.%s>' % (name, k), '{%s.%s}' % (name, k)]
            else:
                opts += ['<:%s>' % k, '{:%s}' % k]
        elif f.startswith('re('):
            arg = f[3:-1]
            if name:
                opts += ['{%s.re(%s)}' % (name, arg), '{%s:re(%s)}' % (name, arg), '<%s.re(%s)>' % (name, arg)]
                if '>' not in arg:
                    opts.append('<%s:re:%s>' % (name, arg))
            else:
                opts += ['{re(%s)}' % arg, '<re(%s)>' % arg, '{:re(%s)}' % arg]
                if '>' not in arg:
                    opts.append('<:re:%s>' % arg)
        elif f.startswith('path('):
            if name:
                opts += ['<%s:path>' % name, '{%s.path()}' % name, '{%s:path()}' % name, '<%s.path>' % name]
            else:
                opts += ['<:path>', '{path()}', '<path()>']
        else:
            raise ValueError('unknown filter ' + f)
        out += opts[flavour % len(opts)] if flavour is not None else rng.choice(opts)
    return out


# ---------------------------------------------------------------------------
# projection of the live radix tree onto the records of specs/Router.tla

class Proj:
    def __init__(self):
        self.hook_pat = {}     # id(func) -> pattern (list of ints)
        self.keep = []

    def fkey(self, h):
        from ombott.router.filter_factory import FilterFactory
        if h is None:
            return 'None'
        # the factory keeps one handler object per filter spec in some class-level table; find the spec of this handler in
        # whatever dict that is (key "name(args)" or (name, args)); '?' if there is none (-> no projection, DRIFT)
        for _attr, table in list(vars(FilterFactory).items()):
            if not isinstance(table, dict):
                continue
            for k, v in list(table.items()):
                hv = v[0] if isinstance(v, (list, tuple)) and v else v
                if hv is h:
                    if isinstance(k, str):
                        return k
                    if isinstance(k, tuple) and len(k) == 2:
                        return '%s(%s)' % (k[0], k[1])
        return '?'

    def node(self, n):
        from ombott.router.radidict import KEY, IDX, PARAMS, FILTER, HOOKS, DATA, OFFSET
        hooks = []
        if n[HOOKS]:
            simple = n[HOOKS][0]
            hooks = [self.hook_pat.get(id(simple), [-1])] if simple is not None else []
        return {'key': s2l(n[KEY]), 'idx': s2l(n[IDX] or ''),
                'params': ['' if p.startswith('anon-') else p for p in n[PARAMS]],
                'filter': self.fkey(n[FILTER]), 'hooks': hooks,
                'data': [] if n[DATA] is None else [s2l(n[DATA].pattern)],
                'ch': [self.node(c) for c in n[OFFSET:]]}


class RealRouter:
    """A real Ombott application whose router is edited and probed; handlers are identified by rule ids."""

    def __init__(self, rng):
        from ombott import Ombott
        self.app = Ombott()
        self.router = self.app.router
        self.rng = rng
        self.proj = Proj()
        self.handlers = {}
        self.fired = []
        self.got = {}
        self.rule_pats = {}
        self.churn = rng.random() < 0.3
        self.texts = {}
        self.cur_filters = {}
        self.churned = 0

    def note_text(self, pat, rule, filters):
        # a successful registration either found the route with these very filters or created it: spellings recorded for the
        # pattern under other filters belong to a route that is gone
        if self.cur_filters.get(pat) != filters:
            self.texts[pat] = set()
            self.cur_filters[pat] = filters
        self.texts[pat].add(rule)

    def handler(self, hid):
        if hid not in self.handlers:
            def h(**kw):
                self.got['h'] = hid
                self.got['kw'] = kw
                return hid
            h.hid = hid
            self.handlers[hid] = h
        return self.handlers[hid]

    def hook(self, pat):
        def f(prefix):
            self.fired.append([pat, prefix])
        self.proj.hook_pat[id(f)] = pat
        self.proj.keep.append(f)
        return f

    def text(self, r, flavour=None):
        return render(r['pat'], r['filters'], r['names'], self.rng, flavour)

    def apply(self, op):
        """op: dict with 'op' and arguments; returns outcome string."""
        from ombott.router.errors import RouteMethodError, RouteBuildError
        from ombott.router.radidict import RadiDictError
        k = op['op']
        pending = None
        if self.churn and self.rng.random() < 0.1:
            # meanwhile another router of the process (a plug-in, a mounted application) registers typed rules of its own:
            # many distinct filter specifications pass through whatever the filter factory shares between routers
            from ombott.router.radirouter import RadiRouter
            other = RadiRouter()
            self.churned += 1
            for n in range(70):
                other.add('/churn%d-%d/<v:re(c{%d}%d)>' % (self.churned, n, n, self.churned), 'GET', self.handler(-1))
        try:
            if k == 'add':
                r = op['r']
                self.rule_pats[r['id']] = r['pat']
                verbs = op.get('spelled') or sorted(r['meths'])
                # the same registration through each public entry point, the verbs in every shape an iterable can take
                shape = self.rng.choice(['list', 'list', 'tuple', 'gen', 'iter', 'set', 'str'])
                if shape == 'tuple':
                    verbs = tuple(verbs)
                elif shape == 'gen':
                    verbs = (v for v in list(verbs))
                elif shape == 'iter':
                    verbs = iter(list(verbs))
                elif shape == 'set' and not op.get('spelled'):
                    verbs = set(verbs)
                elif shape == 'str' and len(verbs) == 1:
                    verbs = verbs[0]
                via = self.rng.choice(['router', 'router', 'add_route', 'route'])
                rule, h, name = self.text(r, op.get('flavour')), self.handler(r['id']), r['name'] or None
                pending = (tuple(r['pat']), rule, tuple(r['filters']))
                if via == 'router':
                    self.router.add(rule, verbs, h, name, overwrite=op['ow'])
                elif via == 'add_route':
                    self.app.add_route(rule, verbs, h, name, overwrite=op['ow'])
                else:
                    self.app.route(rule, method=verbs, name=name, overwrite=op['ow'])(h)
            elif k == 'remove_rule':
                if self.rng.random() < 0.3:
                    self.app.remove_route(self.text(op['r'], op.get('flavour')))
                else:
                    self.router.remove(self.text(op['r'], op.get('flavour')))
            elif k == 'remove_name':
                if self.rng.random() < 0.3:
                    self.app.remove_route(name=op['name'])
                else:
                    self.router.remove(name=op['name'])
            elif k == 'remove_obj':
                self.router.remove(self.router.routes[l2s(op['pat'])])
            elif k == 'remove_prefix':
                self.router.remove('/' + l2s(op['pre']) + '*')
            elif k == 'remove_method':
                rt = self.router.routes.get(l2s(op['pat']))
                if rt is not None:
                    ep = rt.methods.get(op['meth'])
                    if ep is not None and self.rng.random() < 0.5:
                        ep.remove()              # RouteMethod.remove(): per-method removal through the end-point object
                    else:
                        rt.remove_method(op['meth'])
            elif k == 'add_hook':
                r = op['r']
                if self.rng.random() < 0.3:
                    self.app.on_route(self.text(r, op.get('flavour')), self.hook(r['pat']))
                else:
                    self.router.add_hook(self.text(r, op.get('flavour')), self.hook(r['pat']))
            elif k == 'remove_hook':
                if self.rng.random() < 0.3:
                    self.app.remove_route_hook(self.text(op['r'], op.get('flavour')))
                else:
                    self.router.remove_hook(self.text(op['r'], op.get('flavour')))
            else:
                raise core.MachineryError('unknown op ' + k)
            if pending:
                self.note_text(*pending)
            return 'ok'
        except RouteMethodError:
            return 'rejected:method'
        except RouteBuildError:
            if pending:       # (a registration refused for its NAME has installed its route)
                self.note_text(*pending)
            return 'rejected:name'
        except RadiDictError:
            return 'rejected:filter'
        except KeyError:
            return 'rejected:key'
        except core.MachineryError:
            raise
        except Exception as e:   # noqa  -- an edit operation must be accepted or rejected with a router error
            return 'exception:' + type(e).__name__

    def state(self):
        r = self.router
        try:
            tree = self.proj.node(r.radidict.root)
        except (AttributeError, TypeError, KeyError, IndexError, ImportError):
            # private tree layout changed: no step-by-step comparison with the mechanism model (DRIFT); verdicts do not use it
            tree = {'unprojectable': 1}
        # lookup by rule (router[{rule}]) with every spelling a pattern was registered under: which patterns are found, and
        # which spellings of a listed route fail to find it
        found, miss = set(), set()
        for pat, texts in self.texts.items():
            for t in sorted(texts):
                try:
                    rt = r[{t}]
                except Exception:   # noqa
                    rt = None
                if rt is not None:
                    found.add(tuple(s2l(rt.pattern)))
                elif l2s(list(pat)) in r.routes:
                    miss.add(pat)
        return {'tree': tree, 'byrule': sorted(map(list, found)), 'byrule_miss': sorted(map(list, miss)),
                'routes': sorted(s2l(p) for p in r.routes),
                'named': sorted([n, s2l(rt.pattern)] for n, rt in r.named_routes.items()),
                'hooks': sorted(s2l(p) for p in r.hooks)}

    def resolve(self, path, verb):
        """Answer of RadiRouter.resolve with the verb chain of Ombott.to_route, in the vocabulary of the spec.  If the
        (semi-private) answer of to_route is shaped differently, the same question is asked through the WSGI entry point."""
        try:
            return self._resolve(path, verb)
        except core.MachineryError:
            raise
        except Exception:   # noqa
            if TOKEN in path or 10 in path or 13 in path or not path:
                return {'k': 'unobservable'}
            c = self.call(path, verb)
            if c['status'] == 404:
                return {'k': '404'}
            if c['status'] == 405:
                return {'k': '405', 'allow': c['allow'].split(',') if c['allow'] else []}
            if c['status'] == 200 and c['h'] is not None:
                return {'k': 'ok', 'h': c['h'], 'route': self.rule_pats.get(c['h'], []), 'params': c['kw'],
                        'hooks': [[len(prefix) - 1, pat] for pat, prefix in c['fired']]}
            return {'k': 'status%s' % c['status']}

    def _resolve(self, path, verb):
        end_point, err = self.app.to_route('/' + l2s(path), verb)     # the verb chain is Ombott.to_route's
        if end_point is None:
            if err[0] == 404:
                return {'k': '404'}
            return {'k': '405', 'allow': err[2].split(',') if err[2] else [], 'allow_raw': err[2]}
        meth, params, hooks = end_point
        return {'k': 'ok', 'h': meth.handler.hid, 'route': s2l(meth.route.pattern), 'params': [[n, val_text(v)] for n, v in sorted(params.items())],
                'hooks': [[pos, self.proj.hook_pat.get(id(hk[0]), [-1])] for pos, hk in hooks if hk and hk[0] is not None]}

    def call(self, path, verb, accept=None, forwarded_from=None):
        """End to end through Ombott.__call__: (status, Allow header, handler id, kwargs, hooks fired)."""
        from harness.checks.bodylib import base_environ, call_app
        from urllib.parse import quote
        self.got.clear()
        del self.fired[:]
        # PATH_INFO as gateways spell it: one leading slash, several, or none (request.path has exactly one either way)
        p = ['/', '/', '//', '', '///'][(len(path) * 2 + len(verb)) % 5] + l2s(path)
        env = base_environ(REQUEST_METHOD=verb, PATH_INFO=p.encode('utf8').decode('latin1'))
        if accept:
            env['HTTP_ACCEPT'] = accept        # the representation of the error page must not change status or Allow
        if forwarded_from and forwarded_from != verb and all(c < 128 for c in path):      # (a processed environ holds the DECODED path: ASCII only)
            # the environ has been through the application once under another verb (an internal forward / sub-request that
            # re-dispatches dict(environ, REQUEST_METHOD=...)): the answer depends on the verb it carries NOW
            env0 = dict(env, REQUEST_METHOD=forwarded_from)
            call_app(self.app, env0)
            env = dict(env0, REQUEST_METHOD=verb)
            env['wsgi.input'] = __import__('io').BytesIO(b'')
            self.got.clear()
            del self.fired[:]
        status, line, headers, body, nsr = call_app(self.app, env)
        allow = [v for k, v in headers if k == 'Allow']
        return {'status': status, 'allow': allow[0] if allow else None, 'h': self.got.get('h'),
                'kw': [[n, val_text(v)] for n, v in sorted((self.got.get('kw') or {}).items())],
                'fired': [[pat, s2l(prefix)] for pat, prefix in self.fired]}


def val_text(v):
    """Received parameter value -> [kind, text as code points]."""
    if isinstance(v, bool):
        return ['other', s2l(repr(v))]
    if isinstance(v, int):
        return ['int', s2l(str(v))]
    if isinstance(v, float):
        return ['float', s2l(repr(v))]
    if isinstance(v, str):
        return ['str', s2l(v)]
    return ['other', s2l(repr(v))]


def instances(universe, alphabet, rng, extra=()):
    """Probe paths: instances of the rules, their one-symbol mutations, and extras."""
    vals = [[49], [98], [49, 49], [45, 49], [TOKEN], [233], [116, 111, 109], [97, 47, 98], [49, 46, 53], [120, 47, 101]]
    out = set()
    for r in universe:
        pat = r['pat']
        for v in vals:
            p = []
            for c in pat:
                p += v if c == TOKEN else [c]
            out.add(tuple(p))
            for i in range(len(p) + 1):
                out.add(tuple(p[:i] + p[i + 1:]))
                for c in alphabet:
                    out.add(tuple(p[:i] + [c] + p[i:]))
                    if i < len(p):
                        out.add(tuple(p[:i] + [c] + p[i + 1:]))
    for e in extra:
        out.add(tuple(e))
    out = [list(p) for p in out if not p or (p[0] != 47 and p[-1] != 47)]
    out.sort()
    return out
