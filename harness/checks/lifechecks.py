"""C08 / C09 / C10: thread-local request/response state. See specs/Life.tla."""
import gc
import io
import sys
import json
import os
import random
import weakref

from harness import core
from harness.checks import lifelib as L

C09_KINDS = ['plain', 'body', 'form', 'raise', 'nf', 'm405', 'crash', 'json404', 'hdrs', 'badpath', 'badchunk', 'oversize',
             'badchunk_json', 'oversize_json', 'mutq', 'latin', 'badmp_json', 'signed', 'forged', 'stat_s', 'stat_n', 'bigbody', 'rewrite', 'tenant', 'whoami', 'lazy', 'delc_opts', 'delc_plain',
             'upload_ct', 'upload_bare', 'crashform', 'account', 'about', 'mount', 'stream', 'chunked', 'badcl', 'mprep',
             'sfile', 'sfile_range', 'sfile_head', 'login401', 'gate', 'gate_ok', 'proxied']
C09_CONFIG = {'max_body_size': 1000, 'max_memfile_size': 128}


def strip(tr):
    return {'ev': tr['ev'], 'bound0': tr['bound0'], 'resp_ok': tr['resp_ok']}


def validate(chk, traces, what):
    """-> (asis_missing, own_missing, fails) from chunked parallel TLC batch runs of LifeTrace (1-based trace ids)."""
    if L.RECORDER_BROKEN:
        chk.drift('%s: the generated ts_props accessors are written differently from the model (their events cannot be projected): '
                  'accessor-level trace validation is vacuous for this run, the solo-response oracle still applies' % what)
    if not traces:
        return set(), set(), {}
    nchunks = max(1, min(8, len(traces) // 50 or 1))
    chunks = [list(range(i, len(traces), nchunks)) for i in range(nchunks)]

    def one(idxs):
        ws = core.tla_workspace()
        path = os.path.join(ws, 'traces.json')
        with open(path, 'w') as fh:
            json.dump([strip(traces[i]) for i in idxs], fh)
        return idxs, core.run_tlc(ws, 'LifeTrace', 'LifeTrace.cfg', workers=1, env={'TRACE_FILE': path}, timeout=7200)
    missing, own_missing, fails = set(), set(), {}
    for idxs, r in core.parallel([(lambda c=c: one(c)) for c in chunks], max_workers=8):
        chk.add_tlc(r, 'LifeTrace %s (%d traces, %d events)' % (what, len(idxs), sum(len(traces[i]['ev']) for i in idxs)))
        mm, ff = core.trace_report(r)
        own = r.printed_json('OWN_MISSING')
        for tid in mm:
            missing.add(idxs[tid - 1] + 1)
        for tid in (own[-1] if own else []):
            own_missing.add(idxs[int(tid) - 1] + 1)
        for tid, cl in ff.items():
            fails.setdefault(idxs[tid - 1] + 1, set()).update(cl)
    return missing, own_missing, fails


# ---------------------------------------------------------------------------
# programs for the model, recorded from the real code

def record_program(acc, apps, names, action, private_prefix='p'):
    """Run `action` (a list of requests / callables) alone on one thread, return (ops, bound0 names)."""
    res, tr, _ = L.run_threads([apps[0]], [action], [], acc)
    rec = tr['_rec']
    name_of = {}
    for nm, app in names.items():
        for cname, obj in (('Req', app.request), ('Resp', app.response)):
            try:
                name_of[rec.ids(object.__getattribute__(obj, '_ts_props'))] = '%s.%s' % (nm, cname)
            except AttributeError:
                pass
    ops = []
    priv = {}
    vids = {}
    for e in tr['ev']:
        if e['ev'] == 'req':
            ops.append({'ev': 'req', 'cls': '', 'inst': '', 'private': False, 'prop': '', 'vid': 0})
            continue
        own = e['own']
        if own in name_of:
            inst, private = name_of[own], False
        else:
            inst, private = priv.setdefault(own, '%s%d' % (private_prefix, len(priv) + 1)), True
        vid = 0
        if e['ev'] == 'set' and e['val'] != 0:
            vid = 1
        ops.append({'ev': e['ev'], 'cls': e['cls'], 'inst': inst, 'private': private, 'prop': e.get('prop', ''), 'vid': vid})
    b0 = {c: name_of.get(v, 'other.' + c) for c, v in tr['bound0'].items()}
    return ops, b0, res[0]


def write_progs(ws, threads, plans, progs, bound0):
    def op(o):
        return '[ev |-> "%s", cls |-> "%s", inst |-> "%s", private |-> %s, prop |-> "%s", vid |-> %d]' % (
            o['ev'], o['cls'], o['inst'], 'TRUE' if o['private'] else 'FALSE', o['prop'], o['vid'])
    lines = ['---- MODULE LifeProgs ----', 'EXTENDS Naturals, Sequences',
             'Threads == 1..%d' % threads,
             'Plans == {%s}' % ', '.join(core.to_tla(list(p)) for p in plans),
             'Bound0 == [Req |-> "%s", Resp |-> "%s"]' % (bound0['Req'], bound0['Resp']),
             'ProgOf == [' + ',\n  '.join('%s |-> <<%s>>' % (k, ', '.join(op(o) for o in v)) for k, v in progs.items()) + ']',
             '====']
    with open(os.path.join(ws, 'LifeProgs.tla'), 'w') as fh:
        fh.write('\n'.join(lines) + '\n')


def mc(chk, what, threads, plans, progs, bound0, expect_hold=True, simulate=None, workers=None):
    ws = core.tla_workspace()
    write_progs(ws, threads, plans, progs, bound0)
    r = core.run_tlc(ws, 'MC_Life', 'MC_Life.cfg', allow_violation=True, workers=workers)
    chk.add_tlc(r, 'exhaustive interleavings MC_Life %s (threads=%d, plans=%d)' % (what, threads, len(plans)))
    if expect_hold and not r.ok:
        return r, False
    if expect_hold:
        r2 = core.run_tlc(ws, 'MC_Life', 'MC_Life_reach.cfg', allow_violation=True, workers=workers)
        if r2.ok:
            raise core.MachineryError('vacuous model run (%s): no behaviour completes all programs' % what)
    return r, r.ok


def sim_orders(chk, threads, plans, progs, bound0, num, seed):
    ws = core.tla_workspace()
    write_progs(ws, threads, plans, progs, bound0)
    r = core.run_tlc(ws, 'MC_LifeSim', 'MC_LifeSim.cfg', workers=1, simulate='num=%d' % num, depth=400, seed=seed)
    chk.add_tlc(r, 'simulated interleavings MC_LifeSim')
    return r.printed_json('W')


# ---------------------------------------------------------------------------

def run_c08(chk):
    rng = random.Random(chk.seed * 31 + 8)
    thorough = chk.tier == 'thorough'
    acc = L.Accessors()
    if not acc.ok:
        chk.drift('ts_props accessors not found by introspection: accessor-level trace validation is skipped, '
                  'the solo-response oracle still applies')
    kinds = L.KINDS
    # programs of each kind recorded from the real code
    app = L.make_app()
    progs = {}
    b0 = None
    for k in kinds:
        ops, b0, _ = record_program(acc, [app], {'a': app}, [(k, 'A')])
        progs[k] = ops
    chk.sample({'kind': 'recorded accessor program', 'request': 'plain', 'events': [(o['ev'], o['inst'], o['prop']) for o in progs['plain'][:10]],
                'length': len(progs['plain'])})
    plans2 = [[k] for k in (kinds if thorough else ['plain', 'body', 'raise', 'crash', 'hdrs'])]
    r, ok = mc(chk, 'C08 one application', 2, plans2, progs, b0)
    if not ok:
        raise core.MachineryError('as-is model violates Isolation for one application on two threads: %s' % r.printed('BADPLAN')[:1])
    if thorough:
        r, ok = mc(chk, 'C08 one application, 3 threads', 3, [['plain'], ['raise'], ['hdrs']], progs, b0)
        if not ok:
            raise core.MachineryError('as-is model violates Isolation for one application on three threads')
    chk.exhaustive = True
    # real threads under forced schedules
    traces = []
    # references: each (kind, client) served by a fresh application in an interpreter that has served nothing else
    solos = L.reference_table(sorted(set(kinds) | {'badchunk_json', 'oversize_json', 'badchunk', 'm405', 'mpfrag'}), ['A', 'B', 'C'])

    def solo(k, n):
        if (k, n) not in solos:
            solos[(k, n)] = L.solo(k, n)
        return solos[(k, n)]

    def execute(reqs, sched, line_files=None, tag='sched'):
        res, tr, taken = L.run_threads([app] * len(reqs), reqs, sched, acc if acc.ok else None, line_files)
        ok = [res[i] == solo(*reqs[i]) for i in range(len(reqs))]
        tr['resp_ok'] = ok
        tr['reqs'] = reqs
        tr['sched'] = taken[:400]
        tr['res'] = res
        chk.count(1, (tag, tuple(reqs), tuple(taken[:120])))
        if line_files:
            # too many line events to validate as accessor traces usefully: keep only the verdict
            if not all(ok):
                report_resp(chk, 'C08', tr)
        else:
            traces.append(tr)
        return tr

    names = ['A', 'B', 'C']
    pairs = [(a, b) for a in kinds for b in kinds]
    rng.shuffle(pairs)
    pairs = pairs[:28] if thorough else pairs[:8]
    # kinds that differ only in what they pass to the same framework call
    pairs += [('delc_opts', 'delc_plain'), ('delc_plain', 'delc_opts'), ('stat_s', 'stat_n'), ('upload_ct', 'upload_bare')]
    for ka, kb in pairs:
        reqs = [(ka, 'A'), (kb, 'B')]
        na, nb = len(progs[ka]), len(progs[kb])
        # one pre-emption: thread 0 runs a steps, thread 1 completes, thread 0 completes (and symmetric)
        step = 1 if thorough else 3
        for a in range(0, na + 1, step):
            execute(reqs, [0] * a + [1] * (nb + 2))
            execute(reqs, [1] * a + [0] * (na + 2))
        # two pre-emptions
        cand = [(a, b) for a in range(1, na) for b in range(1, nb)]
        rng.shuffle(cand)
        for a, b in cand[:(500 if thorough else 60)]:
            execute(reqs, [0] * a + [1] * b + [0] * (na + 2))
    # three threads, sampled
    for _ in range(200 if thorough else 25):
        ks = [rng.choice(kinds) for _ in range(3)]
        reqs = [(ks[i], names[i]) for i in range(3)]
        sched = [rng.randrange(3) for _ in range(200)]
        execute(reqs, sched, tag='3t')
    # TLC-simulated interleavings replayed on the real threads
    ws_orders = sim_orders(chk, 2, plans2, progs, b0, 300 if thorough else 60, chk.seed + 3)
    for w in ws_orders:
        reqs = [(w['plan'][0][0], 'A'), (w['plan'][1][0], 'B')]
        execute(reqs, [t - 1 for t in w['order']], tag='tlc')
    if True:
        lf = (os.path.join(core.REPO, 'ombott'),)
        for _ in range(1500 if thorough else 160):
            ks = [rng.choice(kinds) for _ in range(2)]
            reqs = [(ks[0], 'A'), (ks[1], 'B')]
            a = rng.randint(0, 700)
            b = rng.choice([5000, 5000, rng.randint(1, 900)])     # mostly: the other request runs to completion in between
            execute(reqs, [0] * a + [1] * b + [0] * 5000, line_files=lf, tag='line')
        # twins: two clients sending the same kind of request (same error object, same cached parse, same route) with
        # different data; the second is served completely at a swept pre-emption point of the first
        twin_kinds = list(kinds) + ['badchunk_json', 'oversize_json', 'badchunk', 'm405', 'mpfrag']
        for k in twin_kinds:
            reqs = [(k, 'A'), (k, 'B')]
            tr0 = execute(reqs, [0] * 5000, line_files=lf, tag='twin')
            n0 = sum(1 for t in tr0['sched'] if t == 0) if len(tr0['sched']) < 400 else None
            if n0 is None:
                _, _, taken0 = L.run_threads([app, app], reqs, [0] * 5000, acc if acc.ok else None, lf)
                n0 = sum(1 for t in taken0 if t == 0)
            fine = k in ('rewrite', 'tenant', 'lazy', 'chunked')       # short critical windows (listener dispatch, tenant lookup): sweep every other line
            if k == 'mpfrag':
                stepk = 5 if thorough else max(1, n0 // 90)      # a long parse (dozens of reads): sampled densely enough to land between any two reads
            else:
                stepk = (1 if fine else 3) if thorough else (2 if fine else max(1, n0 // 36))
            for a in range(1, n0 + 1, stepk):
                execute(reqs, [0] * a + [1] * 5000 + [0] * 5000, line_files=lf, tag='twin')
        # two requests with different verbs, the second served completely at every other source line of the first: each is
        # dispatched by its own verb
        for ka, kb in (('plain', 'form'), ('form', 'plain'), ('body', 'hdrs')):
            reqs = [(ka, 'A'), (kb, 'B')]
            _, _, taken0 = L.run_threads([app, app], reqs, [0] * 5000, acc if acc.ok else None, lf)
            n0 = sum(1 for t in taken0 if t == 0)
            for a in range(1, n0 + 1, 1 if thorough else 2):
                execute(reqs, [0] * a + [1] * 5000 + [0] * 5000, line_files=lf, tag='verbs')
        # cold start: the first error pages of a freshly started process, produced concurrently (module-level things that are
        # loaded on first use are loaded while another thread is already asking for them)
        import importlib
        cold = sys.modules.get('ombott.error_render')
        if cold is not None:
            for k in (['nf', 'm405', 'crash'] if thorough else ['nf']):
                reqs = [(k, 'A'), (k, 'B')]
                importlib.reload(cold)
                _, _, taken0 = L.run_threads([app, app], reqs, [0] * 5000, acc if acc.ok else None, lf)
                n0 = sum(1 for t in taken0 if t == 0)
                for a in range(1, n0 + 1, 1 if thorough else 2):
                    importlib.reload(cold)
                    execute(reqs, [0] * a + [1] * 5000 + [0] * 5000, line_files=lf, tag='cold')
            importlib.reload(cold)
    judge(chk, 'C08', traces, closure_known=False)
    chk.extra['assumptions'] = ['pre-emption happens at accessor calls (quick) and additionally at every source line of ombott/* (thorough)',
                                'CPython: a thread switch inside one bytecode of the accessors is not modelled']
    chk.extra['rule'] = ('request kind pairs/triples on real threads under forced schedules: all single pre-emptions, '
                         'sampled double pre-emptions, random 3-thread schedules, TLC-simulated interleavings; distinct by (requests, schedule)')


def report_resp(chk, pid, tr, known_closure=False):
    bad = [i for i, o in enumerate(tr['resp_ok']) if not o]
    i = bad[0]
    got = tr['res'][i] if i < len(tr['res']) else tr['res']
    case = {'requests': [list(r) if isinstance(r, tuple) else r for r in tr['reqs']], 'schedule': tr['sched'],
            'thread': i, 'got': got if not isinstance(got, list) or len(json.dumps(got)) < 3000 else str(got)[:3000],
            'arrangement': tr.get('arr', 'threads'), 'explained_by_closure_rebinding': bool(tr.get('asis', False)) and known_closure,
            'closure_case': (tr.get('arr', 'threads') + ':response') if (tr.get('asis') and known_closure) else None,
            'stale_kind': tr.get('stale_kind')}
    rq = tr['reqs'][i] if i < len(tr['reqs']) else tr['reqs']
    if 'arr' in tr:
        rq = 'arrangement %s' % tr['arr']
    chk.violation('%s: response #%d of %s differs from the response the same request gets when served alone; '
                  'schedule %s...' % (pid, i, rq, tr['sched'][:30]), case)


def judge(chk, pid, traces, closure_known):
    asis_missing, own_missing, fails = validate(chk, traces, pid)
    for tid, tr in enumerate(traces, 1):
        tr['asis'] = tid not in asis_missing
    n_asis = len(traces) - len(asis_missing)
    n_own = len(traces) - len(own_missing)
    chk.extra['traces_explained_by_closure_model'] = n_asis
    chk.extra['traces_explained_by_per_instance_lookup'] = n_own
    bad = 0
    for tid, cl in sorted(fails.items()):
        tr = traces[tid - 1]
        bad += 1
        if 'SoloResponse' in cl:
            report_resp(chk, pid, tr, known_closure=closure_known)
        else:
            case = {'requests': [list(r) if isinstance(r, tuple) else r for r in tr['reqs']], 'schedule': tr['sched'],
                    'arrangement': tr.get('arr', 'threads'), 'clauses': sorted(cl),
                    'explained_by_closure_rebinding': tr['asis'] and closure_known,
                    'closure_case': (tr.get('arr', 'threads') + ':isolation') if (tr['asis'] and closure_known) else None}
            chk.violation('%s: an accessor read returned a value this thread did not write on this object during its request '
                          '(Isolation) for requests %s under schedule %s...' % (pid, tr['reqs'], tr['sched'][:30]), case)
    neither = [tid for tid in asis_missing if tid in own_missing and tid not in fails]
    if neither and traces and traces[0]['ev']:
        chk.drift('%s: %d trace(s) are explained neither by the class-level closure model nor by per-instance lookup'
                  % (pid, len(neither)))
    chk.traces_validated += len(traces) - bad


# ---------------------------------------------------------------------------

def run_c09(chk):
    rng = random.Random(chk.seed * 31 + 9)
    thorough = chk.tier == 'thorough'
    acc = L.Accessors()
    app = L.make_app(C09_CONFIG)
    kinds = C09_KINDS
    # static_file() reads the request through ombott's module-level default objects (Globals.request), i.e. through ANOTHER
    # instance that is shown this request's state by design: accessor traces keyed by object cannot express that, so the
    # static kinds are judged on their responses only
    mkinds = [k for k in kinds if not k.startswith('sfile')]
    progs = {}
    b0 = None
    for k in mkinds:
        ops, b0, _ = record_program(acc, [app], {'a': app}, [(k, 'A')])
        progs[k] = ops
    # design level: every history of length <= 2 (quick) / 3 (thorough) of request kinds on one thread
    hist = [[a] for a in mkinds] + [[a, b] for a in mkinds for b in mkinds]
    if thorough:
        hist += [[a, b, c] for a in mkinds for b in mkinds for c in mkinds]
    r, ok = mc(chk, 'C09 sequential histories', 1, hist, progs, b0)
    model_bad = None
    if not ok:
        model_bad = r.printed('BADPLAN')
        chk.note('model-level: Isolation violated by a sequential history; concretised and replayed below: %s' % (model_bad[:1],))
    chk.exhaustive = True
    # the references: the same request served by a fresh application, each kind in an interpreter that has served nothing else
    solos = L.reference_table(kinds, ['R%d%s' % (i, 'x' * (i % 4)) for i in range(30)], C09_CONFIG)

    def solo(k, n):
        if (k, n) not in solos:
            solos[(k, n)] = L.solo(k, n, getattr(app, '_verif_cfg', C09_CONFIG))
        return solos[(k, n)]
    traces = []

    def execute(h):
        names = ['R%d%s' % (i, 'x' * (i % 4)) for i in range(len(h))]
        seq = [(k, names[i]) for i, k in enumerate(h)]
        res, tr, _ = L.run_threads([app], [seq], [], acc if acc.ok and not any(k.startswith('sfile') for k in h) else None)
        tr['resp_ok'] = [res[0][i] == solo(*seq[i]) for i in range(len(seq))]
        tr['reqs'] = seq
        tr['sched'] = []
        tr['res'] = res[0]
        tr['arr'] = 'sequential'
        bad = [i for i, o in enumerate(tr['resp_ok']) if not o]
        tr['stale_kind'] = seq[bad[0]][0] if bad else None
        chk.count(1, ('hist', tuple(h)))
        traces.append(tr)
    hs = [[a, b] for a in kinds for b in kinds]
    trip = [[a, b, c] for a in kinds for b in kinds for c in kinds]
    rng.shuffle(trip)
    hs += trip if thorough else trip[:250]
    for _ in range(60 if thorough else 8):
        hs.append([rng.choice(kinds) for _ in range(30)])
    for h in hs:
        execute(h)
    # the same with debug=True (error pages then carry the exception text and the traceback of THIS request)
    dbg_cfg = dict(C09_CONFIG, debug=True)
    dkinds = ['crashform', 'crash', 'nf', 'plain', 'raise']
    app_main, solos_main = app, solos
    app = L.make_app(dbg_cfg)
    app._verif_cfg = dbg_cfg
    solos = L.reference_table(dkinds, ['R%d%s' % (i, 'x' * (i % 4)) for i in range(4)], dbg_cfg, isolate=4)
    try:
        for h in [[a, b] for a in dkinds for b in dkinds] + [[a, b, c] for a in dkinds[:3] for b in dkinds[:3] for c in dkinds[:3]]:
            execute(h)
    finally:
        app, solos = app_main, solos_main
    chk.sample({'kind': 'history', 'requests': hs[5], 'all_equal_to_fresh_app': traces[5]['resp_ok']})
    # SoloResponse for sequential histories compares per request; patch report to index properly
    asis_missing, own_missing, fails = validate(chk, traces, 'C09')
    for tid, cl in sorted(fails.items()):
        tr = traces[tid - 1]
        bad = [i for i, o in enumerate(tr['resp_ok']) if not o]
        i = bad[0] if bad else None
        case = {'history': [k for k, _ in tr['reqs']][:40], 'position': i,
                'failing_kind': tr['reqs'][i][0] if i is not None else None,
                'previous_kind': tr['reqs'][i - 1][0] if i else None, 'clauses': sorted(cl),
                'got': tr['res'][i] if i is not None else None, 'expected': solo(*tr['reqs'][i]) if i is not None else None}
        chk.violation('C09: in history %s the response to request #%s (%s) differs from the one a fresh application gives / '
                      'an accessor returned state from an earlier request (%s)'
                      % ([k for k, _ in tr['reqs']][:12], i, case['failing_kind'], sorted(cl)), case)
    chk.traces_validated += len(traces) - len(fails)
    retention(chk, thorough)
    chk.extra['assumptions'] = ['responses are compared as (number of start_response calls, status line, sorted header list, body)',
                                'retention is measured with weak references to per-request environ dicts and input streams after gc.collect()']
    chk.extra['rule'] = 'all histories of length 2, sampled/all of length 3, random histories of length 30 over 12 request kinds; distinct by kind sequence'


class Env(dict):
    __slots__ = ('__weakref__',)


class Inp(io.BytesIO):
    pass


def retention(chk, thorough):
    """Serving N requests keeps at most a constant number of per-request objects alive."""
    rows = []
    for kind in C09_KINDS:
        app = L.make_app(C09_CONFIG)
        live = []
        counts = []
        gcs = []
        ns = [40, 400] + ([3000] if thorough else [])
        done = 0
        for n in ns:
            while done < n:
                env = Env(L.environ_for(kind, 'N%d' % done))
                inp = Inp(env['wsgi.input'].getvalue())
                env['wsgi.input'] = inp
                live.append(weakref.ref(env))
                live.append(weakref.ref(inp))
                L.serve(app, env)
                del env, inp
                done += 1
            gc.collect()
            counts.append(sum(1 for w in live if w() is not None))
            gcs.append(len(gc.get_objects()) - len(live))
        rows.append({'kind': kind, 'ns': ns, 'live': counts})
        # everything else a request may leave behind (listeners, closures, open temporary files): all gc-tracked objects, per 100 requests
        rows.append({'kind': kind + ' (all gc objects, per 100 requests)', 'ns': ns, 'bound': 40,
                     'live': [0] + [max(0, (gcs[i] - gcs[0]) * 100 // (ns[i] - ns[0])) for i in range(1, len(ns))]})
        chk.count(1, ('retention', kind))
    # per-request allocations that are not reachable from environ (caches keyed by request data): count every gc-tracked
    # object after N1 < N2 requests whose client-chosen parts (multipart boundary, path, query, cookie) differ per request
    import random as _random
    from harness.checks import formlib as fl, mplib
    rr = _random.Random(7)
    app = fl.form_app(1000, None)
    counts = []
    done = 0
    ns = [300, 1200] + ([4000] if thorough else [])
    for n in ns:
        while done < n:
            b = ('bnd%dx%d' % (done, rr.randrange(10 ** 9))).encode()
            body = mplib.encode_form([{'name': 'a%d' % done, 'value': 'v'}, {'name': 'f', 'filename': 'n%d' % done, 'data': b'xy'}], b)
            fl.post(1000, body, 'multipart/form-data; boundary=' + b.decode(), what='forms+files')
            L.serve(app, L.environ_for('nf', 'N%d' % done))
            done += 1
        gc.collect()
        counts.append(len(gc.get_objects()))
    # expressed like the weak-reference rows: live objects above the first measurement, per the bound of 8 per ... the judgement
    # in Retention.tla is "grows and exceeds the bound"; here the unit is objects per 100 requests
    per100 = [0] + [max(0, (counts[i] - counts[0]) * 100 // (ns[i] - ns[0])) for i in range(1, len(ns))]
    rows.append({'kind': 'random-boundary multipart + 404 (all gc objects, per 100 requests)', 'ns': ns, 'live': per100})
    chk.count(1, ('retention', 'gc-objects'))
    ws = core.tla_workspace()
    path = os.path.join(ws, 'ret.json')
    json.dump(rows, open(path, 'w'))
    r = core.run_tlc(ws, 'Retention', 'Retention.cfg', workers=1, env={'TRACE_FILE': path})
    chk.add_tlc(r, 'Retention (bounded reachability judged from measured live counts)')
    bad = r.printed_json('RETENTION_FAILS')
    for i in (bad[-1] if bad else []):
        row = rows[int(i) - 1]
        chk.violation('C09 retention: after %s requests of kind %s the number of live per-request objects is %s (grows with N)'
                      % (row['ns'], row['kind'], row['live']), {'retention_kind': row['kind'], 'ns': row['ns'], 'live': row['live']})
    chk.extra['retention'] = rows


# ---------------------------------------------------------------------------

def run_c10(chk):
    rng = random.Random(chk.seed * 31 + 10)
    thorough = chk.tier == 'thorough'
    acc = L.Accessors()
    import ombott
    from ombott import Ombott
    traces = []
    solos = {}

    def solo(k, n):
        if (k, n) not in solos:
            solos[(k, n)] = L.solo(k, n)
        return solos[(k, n)]

    def fresh_apps():
        a, b = L.make_app(), L.make_app()
        return a, b

    # --- arrangements as callables run on worker threads
    def nested(a, b, ka, kb):
        """a handler of `a` serves a request with `b` and then goes on using its own request/response."""
        inner = {}

        @a.route('/nest/<name>')
        def h(name):
            before = (a.request.path, a.request.headers.get('X-Id'))
            a.response.headers['X-Outer'] = name
            inner['res'] = L.serve(b, L.environ_for(kb, 'IN'))
            after = (a.request.path, a.request.headers.get('X-Id'))
            a.response.set_cookie('outer', name)
            return json.dumps([name, before, after, before == after])
        env = L.environ_for('plain', 'OUT')
        env['PATH_INFO'] = '/nest/OUT'
        return env, inner

    def expect_nested():
        return [1, '200 OK', sorted([['Content-Length', None], ['Content-Type', 'text/html; charset=UTF-8'],
                                     ['Set-Cookie', 'outer=OUT'], ['X-Outer', 'OUT']]), None]

    config_churn_pass = [0]

    def run_arr(arr, sched, nthreads=1):
        a, b = fresh_apps()
        reqs, apps, expect = [], [], []
        if arr == 'alternate':
            seq = []
            for i in range(4):
                ap = a if i % 2 == 0 else b
                if run_arr.force_stream and i % 2 == 1:
                    seq.append((lambda ap=ap, i=i: L.serve(ap, L.environ_for('stream', 'S%d' % i))))
                    expect.append(solo('stream', 'S%d' % i))
                    continue
                k = rng.choice(L.KINDS + ['badchunk', 'badchunk_json', 'badpath', 'm405', 'mutq', 'mutq', 'badcl', 'badcl'])
                seq.append((lambda ap=ap, k=k, i=i: L.serve(ap, L.environ_for(k, 'S%d' % i))))
                expect.append(solo(k, 'S%d' % i))
            reqs, apps = [seq], [a]
            flat = True
        elif arr == 'create_between':
            seq = []
            for i in range(3):
                k = rng.choice(L.KINDS)
                seq.append((lambda k=k, i=i: L.serve(a, L.environ_for(k, 'S%d' % i))))
                expect.append(solo(k, 'S%d' % i))
                seq.append(lambda: [Ombott(), 'created'][1])
                expect.append('created')
            reqs, apps = [seq], [a]
            flat = True
        elif arr in ('nested', 'copy', 'create_inside'):
            env_holder = {}
            if arr == 'nested':
                env, inner = nested(a, b, 'plain', 'body')

                def act():
                    r = L.serve(a, env)
                    return [r, inner.get('res')]
                exp_inner = solo('body', 'IN')
            else:
                @a.route('/x/<name>', method=['GET', 'POST'])
                def h(name):
                    a.request.tenant = 'tenant-' + name
                    before = (a.request.path, a.request.headers.get('X-Id'), a.request.query_string,
                              dict(a.request.forms), a.request.tenant, a.request.body.read())
                    if arr == 'copy':
                        c = a.request.copy()
                        keep = c.path
                    else:
                        keep = Ombott() and 'app'
                    after = (a.request.path, a.request.headers.get('X-Id'), a.request.query_string,
                             dict(a.request.forms), getattr(a.request, 'tenant', None), a.request.body.read())
                    a.response.headers['X-Outer'] = name
                    return json.dumps([name, [before[0]], [after[0]], before == after, keep is not None])
                env = L.environ_for('form', 'OUT')
                env['PATH_INFO'] = '/x/OUT'

                def act():
                    return [L.serve(a, env), None]
                exp_inner = None
            reqs, apps = [[act]], [a]
            flat = False
            if nthreads == 2:
                # a second thread serves an ordinary request with the SAME application meanwhile
                k2 = rng.choice(['plain', 'body', 'hdrs', 'raise'])
                reqs.append([(k2, 'T2')])
                apps.append(a)
        elif arr == 'listener':
            # a's handler subscribes to changes of its own request; then b (and the default application) assign request keys
            other = b
            seq = [(lambda: L.serve(a, L.environ_for('listen', 'LS'))),
                   (lambda: L.serve(other, L.environ_for('assign', 'AS'))),
                   (lambda: L.serve(other, L.environ_for('mutq', 'MQ')))]
            # the references of the observers are computed before anything subscribes anywhere in this process
            e_as, e_mq = solo('assign', 'AS'), solo('mutq', 'MQ')
            expect = [solo('listen', 'LS'), e_as, e_mq]
            reqs, apps = [seq], [a]
            flat = True
        elif arr == 'shared_environ':
            # a cascade: the SAME environ dict is offered to a, then to b, then to the default application
            d = ombott.app
            if not getattr(d, '_verif_routes', False):
                L.make_app(app=d)
                d._verif_routes = True
            b.route('/only-here/b', callback=lambda: 'b')
            env = L.environ_for('whoami', 'W')
            env2 = L.environ_for('whoami', 'W')

            def again(ap, e):
                e['wsgi.input'] = io.BytesIO(b'')
                return L.serve(ap, e)
            e_plain = L.serve(L.make_app(), env2)
            bref = L.make_app()
            bref.route('/only-here/b', callback=lambda: 'b')
            e_bref = L.serve(bref, L.environ_for('whoami', 'W'))
            seq = [(lambda: again(a, env)), (lambda: again(b, env)), (lambda: again(d, env)), (lambda: again(b, dict(env)))]
            expect = [e_plain, e_bref, e_plain, e_bref]
            reqs, apps = [seq], [a]
            flat = True
        elif arr == 'custom_errors_map':
            # an application constructed with its own errors_map (a rarely used option) while others exist
            from ombott import Ombott as _O, HTTPError as _HE
            from ombott.request_pkg import errors as _rqe
            d = ombott.app
            if not getattr(d, '_verif_routes', False):
                L.make_app(app=d)
                d._verif_routes = True
            e1, e2, e3 = solo('badchunk', 'E1'), solo('badmp_json', 'E2'), solo('oversize', 'E3')

            def construct():
                _O({'errors_map': {_rqe.RequestError: _HE(422, 'Unprocessable'), _rqe.BodyParsingError: _HE(418, 'teapot')}})
                return 'constructed'
            seq = [(lambda: L.serve(a, L.environ_for('badchunk', 'E1'))), construct,
                   (lambda: L.serve(a, L.environ_for('badchunk', 'E1'))), (lambda: L.serve(b, L.environ_for('badmp_json', 'E2'))),
                   (lambda: L.serve(d, L.environ_for('badchunk', 'E1'))), (lambda: L.serve(L.make_app(), L.environ_for('oversize', 'E3')))]
            expect = [e1, 'constructed', e1, e2, e1, e3]
            reqs, apps = [seq], [a]
            flat = True
        elif arr == 'custom404':
            # a's own 404 handler personalises the error it is given before delegating to the default page
            def nf_handler(res):
                res.body = 'application A has nothing at ' + a.request.path
                return a.default_error_handler(res)
            a.error(404)(nf_handler)
            e_b, e_b2 = solo('nf', 'NB'), solo('json404', 'NJ')
            seq = [(lambda: L.serve(a, L.environ_for('nf', 'NA'))), (lambda: L.serve(b, L.environ_for('nf', 'NB'))),
                   (lambda: L.serve(a, L.environ_for('nf', 'NA2'))), (lambda: L.serve(b, L.environ_for('json404', 'NJ')))]
            expect = [None, e_b, None, e_b2]
            reqs, apps = [seq], [a]
            flat = True
        elif arr == 'status_table':
            # a answers with its own reason phrase for a code without a registered one; b and the default application use the code
            d = ombott.app
            if not getattr(d, '_verif_routes', False):
                L.make_app(app=d)
                d._verif_routes = True
            # references from fresh interpreters: the first use of the code in THIS process is a's custom phrase
            seq = [(lambda: L.serve(a, L.environ_for('stat_s', 'S0'))),
                   (lambda: L.serve(b, L.environ_for('stat_n', 'N1'))),
                   (lambda: L.serve(d, L.environ_for('stat_n', 'N2')))]
            expect = core.parallel([(lambda k=k, n=n: L.solo_fresh_interpreter(k, n)) for k, n in (('stat_s', 'S0'), ('stat_n', 'N1'), ('stat_n', 'N2'))], max_workers=3)
            reqs, apps = [seq], [a]
            flat = True
        elif arr == 'config_churn':
            # short-lived applications with a tight configuration come and go (a test runner, a plug-in host); applications
            # constructed afterwards with the default configuration behave as if they were alone
            import gc

            def churn():
                # all of them alive at once, then all dropped at once: their configuration objects leave a batch of free blocks
                xs = [L.make_app({'max_body_size': 5, 'max_memfile_size': 3}) for _i in range(25)]
                for x in xs:
                    L.serve(x, L.environ_for('plain', 'Z'))
                x = None
                del xs[:]
                gc.collect()
                return 'churned'

            def fresh_serve(k, n, e):
                # (configured, but with limits no request here comes near: the answers are those of the default configuration)
                # a batch of applications alive at the same time, so that their configuration objects settle in whatever
                # blocks the dropped ones left; each serves the request, every answer must be the solo answer
                ys = [L.make_app({'max_body_size': 50000 + len(n), 'max_memfile_size': 20000}) for _i in range(30)]
                got = [L.serve(y, L.environ_for(k, n)) for y in ys]
                if os.environ.get('VERIF_DEBUG_CHURN'):
                    print('CHURN', k, n, eager and (eager.handed, eager.reused), sum(1 for g in got if g != e), str(got[0])[:150], flush=True)
                return next((g for g in got if g != e), e)
            plan = [None, ('body', 'C1'), None, ('form', 'C2'), ('bigbody', 'C3'), None, ('body', 'C4'), ('mprep', 'C5')]
            expect = ['churned' if q is None else solo(*q) for q in plan]
            # the second pass of this arrangement runs with the environment choosing addresses eagerly (L.EagerIds): whatever the
            # code keeps under id(x) meets another object under the same id as soon as x is gone
            eager = L.EagerIds() if config_churn_pass[0] else None
            config_churn_pass[0] += 1

            def with_ids(f):
                def g():
                    if eager is None:
                        return f()
                    eager.install()
                    try:
                        return f()
                    finally:
                        eager.remove()
                return g
            seq = [with_ids(churn) if q is None else with_ids(lambda q=q, e=e: fresh_serve(q[0], q[1], e)) for q, e in zip(plan, expect)]
            reqs, apps = [seq], [a]
            flat = True
        elif arr == 'module_helpers':
            # ombott.redirect() called by a handler of an application that is not the default one: on a thread the default
            # application never served on, and again after the default application answered there with headers of its own.
            # The expected redirect is stated outright (the handler's own header and cookie, nothing else), not taken from a run.
            d = ombott.app
            if not getattr(d, '_verif_routes', False):
                L.make_app(app=d)
                d._verif_routes = True

            def exp_redir(n):
                # stated outright: one start_response, a redirect to the handler's target carrying the handler's own header and
                # cookie and nothing of anybody else's; and, for everything incidental (Content-Length, default Content-Type),
                # equal to what a fresh application answers in an interpreter that has served nothing else
                ref = L.solo_fresh_interpreter('redir', n)

                def judge_(got):
                    if not (isinstance(got, list) and len(got) == 4 and got[0] == 1 and str(got[1])[:3] in ('302', '303')):
                        return False
                    hs = [tuple(h) for h in got[2]]
                    names = {h[0].lower() for h in hs}
                    return (('Location', 'http://host-%s.example/next/%s' % (n, n)) in hs and ('X-Own', n) in hs
                            and any(h[0] == 'Set-Cookie' and h[1].startswith('own=%s' % n) for h in hs)
                            and sum(1 for h in hs if h[0] == 'Set-Cookie') == 1
                            and names <= {'location', 'x-own', 'set-cookie', 'content-length', 'content-type'} and got == ref)
                return judge_
            e_d = solo('hdrs', 'D1')
            seq = [(lambda: L.serve(a, L.environ_for('redir', 'R0'))), (lambda: L.serve(d, L.environ_for('hdrs', 'D1'))),
                   (lambda: L.serve(a, L.environ_for('redir', 'R1'))), (lambda: L.serve(d, L.environ_for('nf', 'D2'))),
                   (lambda: L.serve(b, L.environ_for('redir', 'R2')))]
            expect = [exp_redir('R0'), e_d, exp_redir('R1'), solo('nf', 'D2'), exp_redir('R2')]
            reqs, apps = [seq], [a]
            flat = True
        elif arr == 'lazy_drain':
            # the server drains a's streamed body only after b (or the default application) has served a request on the same thread
            other = b if rng.random() < 0.5 else ombott.app
            holder = {}
            # ('stream', whose later chunks read the request again, is NOT drained late here: on the current tree that is one more
            #  manifestation of the known finding C10-same-thread -- the store in use is the one initialised last in the thread)
            lz_kind = 'latin'
            run_arr.lz_kind = lz_kind

            def act():
                rec = {}

                def sr(status, headers, exc_info=None):
                    rec['status'], rec['headers'] = status, list(headers)
                it = a(L.environ_for(lz_kind, 'LZ'), sr)
                mid = L.serve(other, L.environ_for('plain', 'MID')) if other is not ombott.app or getattr(ombott.app, '_verif_routes', False) else L.serve(b, L.environ_for('plain', 'MID'))
                body = b''.join(it)
                close = getattr(it, 'close', None)
                if close:
                    close()
                return [[1, rec.get('status'), sorted(map(list, rec.get('headers', []))), body.decode('latin1')], mid]
            reqs, apps = [[act]], [a]
            flat = False
        elif arr == 'two_apps_threads':
            k1, k2 = rng.choice(L.KINDS), rng.choice(L.KINDS)
            reqs, apps = [[(k1, 'A')], [(k2, 'B')]], [a, b]
            expect = None
            flat = None
        elif arr == 'default_and_app':
            k1, k2 = rng.choice(L.KINDS), rng.choice(['plain', 'hdrs'])
            d = ombott.app
            if not getattr(d, '_verif_routes', False):
                L.make_app(app=d)          # handlers that use the default application's own request/response
                d._verif_routes = True
            reqs, apps = [[(k1, 'A')], [(k2, 'B')]], [a, d]
            flat = None
        else:
            raise core.MachineryError(arr)
        # (config_churn runs without the accessor recorder: the recorder keeps every object it has seen alive, and this
        # arrangement is about what happens once applications are gone)
        res, tr, taken = L.run_threads(apps, reqs, sched, acc if acc.ok and arr != 'config_churn' else None)
        ok = []
        if arr in ('alternate', 'create_between', 'listener', 'status_table', 'shared_environ', 'custom_errors_map', 'custom404', 'module_helpers', 'config_churn'):
            ok = [expect[i] is None or (expect[i](res[0][i]) if callable(expect[i]) else res[0][i] == expect[i]) for i in range(len(expect))]
        elif arr == 'lazy_drain':
            got_a, got_mid = res[0][0]
            ok = [got_a == solo(run_arr.lz_kind, 'LZ'), got_mid == solo('plain', 'MID')]
        elif arr in ('nested', 'copy', 'create_inside'):
            r_out, r_in = res[0][0]
            good = False
            if isinstance(r_out, list) and r_out[0] == 1 and str(r_out[1]).startswith('200'):
                try:
                    body = json.loads(r_out[3])
                    hdrs = dict((h[0], h[1]) for h in r_out[2])
                    good = body[3] is True and body[1][0] in ('/nest/OUT', '/x/OUT') and hdrs.get('X-Outer') == 'OUT'
                    if arr == 'nested':
                        good = good and any(h[0] == 'Set-Cookie' and h[1].startswith('outer=OUT') for h in r_out[2]) \
                            and not any(h[0] == 'Set-Cookie' and not h[1].startswith('outer=') for h in r_out[2])
                except Exception:   # noqa
                    good = False
            ok = [good]
            if arr == 'nested':
                ok.append(r_in == exp_inner)
            if nthreads == 2:
                ok.append(res[1][0] == solo(*reqs[1][0]))
        else:
            ok = [res[0][0] == solo(*reqs[0][0]), res[1][0] == solo(*reqs[1][0])]
        tr['resp_ok'] = ok
        tr['reqs'] = [arr, nthreads]
        tr['arr'] = arr if nthreads == 1 else arr + '+thread'
        tr['sched'] = taken[:300]
        tr['res'] = [str(res)[:1500]]
        chk.count(1, (arr, nthreads, tuple(taken[:100])))
        traces.append(tr)
        return tr

    # arrangements inside C10's quantifier that the code as it is supports
    run_arr.force_stream = False
    run_arr('status_table', [])      # first: nothing has subscribed / set a custom status anywhere in this process yet
    run_arr('listener', [])
    run_arr('shared_environ', [])
    run_arr('custom404', [])
    run_arr('module_helpers', [])
    run_arr('config_churn', [])
    run_arr('config_churn', [])
    run_arr('custom_errors_map', [])          # last of the one-shot arrangements: it may change process-wide defaults for good
    run_arr.force_stream = True          # a streamed body (drained at once) right after the other application served
    run_arr('alternate', [])
    run_arr('alternate', [])
    run_arr.force_stream = False
    for _ in range(40 if thorough else 8):
        run_arr('alternate', [])
        run_arr('create_between', [])
        run_arr('lazy_drain', [])
        run_arr('listener', [])
    # arrangements that depend on the class-level closure variable
    for arr in ('nested', 'copy', 'create_inside'):
        for _ in range(6 if thorough else 2):
            run_arr(arr, [])
        for _ in range(150 if thorough else 25):
            run_arr(arr, [rng.randrange(2) for _ in range(150)], nthreads=2)
    for _ in range(300 if thorough else 50):
        run_arr('two_apps_threads', [rng.randrange(2) for _ in range(150)], nthreads=2)
        run_arr('default_and_app', [rng.randrange(2) for _ in range(150)], nthreads=2)
    # two applications with the default configuration on two threads, the second served completely at a swept source line of
    # the first: the error objects of the default errors_map are shared by every application of the process
    lf = (os.path.join(core.REPO, 'ombott'),)
    a, b = fresh_apps()
    for k in ('badmp_json', 'badchunk_json', 'json404', 'oversize_json', 'chunked'):
        reqs = [(k, 'A'), (k, 'B')]
        _, _, taken0 = L.run_threads([a, b], reqs, [0] * 5000, acc if acc.ok else None, lf)
        n0 = sum(1 for t in taken0 if t == 0)
        fine = k == 'chunked'        # the windows between two reads of one size line are a line or two wide
        for x in range(1, n0 + 1, (1 if fine else 3) if thorough else (2 if fine else max(1, n0 // 30))):
            res, tr, taken = L.run_threads([a, b], reqs, [0] * x + [1] * 5000 + [0] * 5000, acc if acc.ok else None, lf)
            chk.count(1, ('two_apps_lines', k, x))
            ok = [res[0] == solo(k, 'A'), res[1] == solo(k, 'B')]
            if not all(ok):
                report_resp(chk, 'C10', {'resp_ok': ok, 'res': res, 'reqs': reqs, 'sched': taken[:300], 'arr': 'two_apps_threads(lines)'})
    chk.sample({'kind': 'arrangement', 'name': traces[-1]['arr'], 'schedule': traces[-1]['sched'][:20], 'ok': traces[-1]['resp_ok']})
    # design level: the as-is model on recorded programs
    a, b = fresh_apps()
    progs = {}
    b0 = None
    for k in ['plain', 'body']:
        ops, b0, _ = record_program(acc, [a], {'a': a, 'b': b}, [(k, 'A')])
        progs[k + '_a'] = ops
        ops, _, _ = record_program(acc, [b], {'a': a, 'b': b}, [(k, 'B')])
        progs[k + '_b'] = ops
    env, inner = nested(a, b, 'plain', 'body')
    ops, _, _ = record_program(acc, [a], {'a': a, 'b': b}, [lambda: L.serve(a, env)])
    progs['nested_a_b'] = ops
    ops, b0, _ = record_program(acc, [a], {'a': a, 'b': b}, [('plain', 'A')])
    r, ok_seq = mc(chk, 'C10 alternating calls on one thread', 1,
                   [['plain_a', 'plain_b', 'body_a'], ['body_b', 'plain_a'], ['plain_a', 'body_b', 'body_b', 'plain_a']], progs, b0)
    if not ok_seq:
        raise core.MachineryError('as-is model violates Isolation for alternating sequential calls')
    r, ok_nested = mc(chk, 'C10 nested call in one thread (current-store model)', 1, [['nested_a_b']], progs, b0, expect_hold=False)
    r2, ok_threads = mc(chk, 'C10 two applications on two threads (current-store model)', 2, [['plain_a'], ['plain_b'], ['body_b']], progs, b0,
                        expect_hold=True, workers=8)
    if not ok_threads:
        raise core.MachineryError('the per-thread current-store model violates Isolation for two applications on two threads')
    chk.extra['design_level'] = {'alternating_calls_hold': ok_seq, 'nested_call_holds': ok_nested,
                                 'two_apps_two_threads_hold': ok_threads}
    if not ok_nested:
        chk.note('design level: TLC finds Isolation violated in the current-store model for a nested call in one thread '
                 '(expected: the listed finding C10-same-thread); two applications on two threads: holds')
    chk.exhaustive = True
    judge(chk, 'C10', traces, closure_known=True)
    chk.extra['assumptions'] = ['pre-emption at accessor calls', 'the module-level default application takes part as one of the applications']
    chk.extra['rule'] = ('arrangements: alternating calls, application created between requests, nested call, Request.copy() in a handler, '
                         'application created in a handler, each alone and beside a second thread; two applications on two threads; distinct by (arrangement, schedule)')
