"""Child process serving a list of request specs one by one (see formlib.post_batch): one JSON line per finished request,
so that the parent can kill it when a request hangs (also inside C code, where no signal handler runs) and go on."""
import json
import random
import sys


def main():
    from harness import core
    core.setup_repo_path()
    from harness.checks import formlib as fl
    specs = json.load(open(sys.argv[1]))
    start = int(sys.argv[2])
    out = sys.stdout
    for i in range(start, len(specs)):
        s = specs[i]
        rng = random.Random(s['seed']) if s.get('seed') is not None else None
        res = fl.post(s['buf'], bytes.fromhex(s['body']), s['ctype'], what=s['what'], chunked=s['chunked'], rng=rng,
                      max_body=s.get('max_body'), time_limit=s.get('time_limit', 5.0), cut_wire=s.get('cut_wire'), in_thread=s.get('in_thread', False),
                      raw_wire=bytes.fromhex(s['raw_wire']) if s.get('raw_wire') else None)
        out.write(json.dumps({'i': i, 'res': res}) + '\n')
        out.flush()


if __name__ == '__main__':
    main()
