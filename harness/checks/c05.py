from harness.checks import bodychecks


def run(chk):
    bodychecks.run(chk, 'C05')


def replay(path):
    return bodychecks.replay(path, 'C05')
