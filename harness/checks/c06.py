"""C06: multipart parsing is independent of how the body is divided into reads."""
import json
import random

from harness import core
from harness.checks import mplib


def witnesses(chk, cfg, simulate=None, seed=None, timeout=1800):
    ws = core.tla_workspace()
    r = core.run_tlc(ws, 'MC_MultipartCover', cfg, workers=1, simulate=simulate, depth=40 if simulate else None,
                     seed=seed, timeout=timeout)
    chk.add_tlc(r, ('simulate ' if simulate else 'state cover ') + cfg)
    return r.printed_json('W')


def gen_upload(rng, max_total):
    boundary = mplib.rand_boundary(rng)
    nparts = rng.choice([0, 1, 1, 2, 3, 5])
    fields = []
    for i in range(nparts):
        n = rng.choice([0, 1, 2, 5, 17, rng.randint(0, max(1, max_total // max(1, nparts)))])
        if rng.random() < 0.5:
            fields.append({'name': 'f%d' % i, 'filename': 'n%d.bin' % i, 'ctype': 'application/octet-stream',
                           'data': mplib.nasty_bytes(rng, n, boundary)})
        else:
            fields.append({'name': 'f%d' % i, 'value': mplib.nasty_bytes(rng, n, boundary).decode('latin1')
                           .encode('ascii', 'replace').decode('ascii')})
    # text values were sanitised to ASCII: make sure no delimiter crept in
    for f in fields:
        if 'value' in f and (b'\r\n--' + boundary) in f['value'].encode():
            f['value'] = 'v'
    # RFC 2046: anything may follow the closing delimiter (an epilogue that itself looks like part headers included)
    body = mplib.encode_form(fields, boundary, epilogue=rng.choice([
        b'', b'\r\n', b'\r\nepilogue', b'\r\n\r\n', b'\r\nX-Trailer: 1\r\n\r\nnot a part\r\n', b'\r\n\rx', b'\r\n\r\n--' + boundary + b'\r\n\r\n',
        b'--\r\n\r\n', b'\n\r\n\r\n']))
    return boundary, body


def cuts_for(rng, body, boundary, thorough):
    """Divisions of one body: all single cuts (sampled when long), double cuts near delimiters, byte-at-a-time, regular."""
    n = len(body)
    out = []
    singles = list(range(1, n))
    limit = 400 if thorough else 60
    if len(singles) > limit:
        near = set()
        tok = b'--' + boundary
        i = body.find(tok)
        while i >= 0:
            for d in range(-4, len(tok) + 6):
                if 0 < i + d < n:
                    near.add(i + d)
            i = body.find(tok, i + 1)
        near = sorted(near)
        last = body.find(tok + b'--')
        last = last if last >= 0 else body.rfind(tok)
        closing = [p for p in range(last - 3, last + len(tok) + 6) if 0 < p < n]      # every cut around the closing delimiter
        singles = sorted(set(rng.sample(near, min(len(near), limit // 2)) + rng.sample(singles, limit // 2) + closing))
    for c in singles:
        out.append([c, n - c])
    # double cuts around delimiter occurrences
    tok = b'--' + boundary
    i = body.find(tok)
    pts = []
    while i >= 0:
        pts += [p for p in range(i - 3, i + len(tok) + 5) if 0 < p < n]
        i = body.find(tok, i + 1)
    pts = sorted(set(pts))
    pairs = [(a, b) for a in pts for b in pts if a < b and b - a <= len(tok) + 6]
    rng.shuffle(pairs)
    for a, b in pairs[:(300 if thorough else 40)]:
        out.append([a, b - a, n - b])
    if n:
        out.append([1] * n)
        for step in (2, 3, 7, len(tok) + 2, 64):
            ks = [step] * (n // step) + ([n % step] if n % step else [])
            out.append(ks)
        # random multi-cut
        for _ in range(6 if thorough else 2):
            ks = []
            left = n
            while left:
                k = min(left, rng.choice([1, 2, 3, 5, len(tok) + 2, rng.randint(1, 40)]))
                ks.append(k)
                left -= k
            out.append(ks)
    return out


def run(chk):
    rng = random.Random(chk.seed * 7919 + 6)
    thorough = chk.tier == 'thorough'
    cfgs = ['MC_Multipart_B.cfg', 'MC_Multipart_Bx.cfg', 'MC_Multipart_HH.cfg'] if thorough else ['MC_Multipart_Bx.cfg', 'MC_Multipart_HH.cfg']
    covers = ['MC_MultipartCover_B.cfg', 'MC_MultipartCover_Bx.cfg', 'MC_MultipartCover_HH.cfg'] if thorough else ['MC_MultipartCover_q.cfg']
    sims = ['B', 'Bx', 'HH'] if thorough else ['B', 'HH']

    def mc(cfg):
        def job():
            ws = core.tla_workspace()
            r = core.run_tlc(ws, 'MC_Multipart', cfg, allow_violation=True, workers=4 if not thorough else 8)
            chk.add_tlc(r, 'exhaustive (all divisions) ' + cfg)
            if not r.ok:
                raise core.MachineryError('model-level invariant violated in %s: %s\n%s' % (cfg, r.violated, r.out[-1500:]))
            return []
        return job
    jobs = [mc(c) for c in cfgs]
    jobs += [(lambda c=c: witnesses(chk, c)) for c in covers]
    jobs += [(lambda b=b: witnesses(chk, 'MC_MultipartSim_%s.cfg' % b, simulate='num=%d' % (20000 if thorough else 2500), seed=chk.seed + 1)) for b in sims]
    wl = []
    for res in core.parallel(jobs, max_workers=8):
        wl += res
    chk.exhaustive = True
    traces = []
    if not thorough and len(wl) > 9000:
        wl = rng.sample(wl, 9000)
    for w in wl:
        t = mplib.run_split(bytes(w['boundary']), bytes(w['body']), [s['k'] for s in w['log']], kind='other')
        traces.append(t)
        chk.count(1, ('w', tuple(w['boundary']), tuple(w['body']), tuple(s['k'] for s in w['log'])))
    for w in wl[:2]:
        chk.sample({'kind': 'tlc-behaviour', 'boundary': bytes(w['boundary']).decode(), 'body': bytes(w['body']).decode('latin1'),
                    'chunks': [s['k'] for s in w['log']]})
    mplib.validate(chk, traces, 'TLC behaviours replayed')
    # code -> spec: real uploads from an independent encoder
    traces = []
    big = []
    nup = 60 if thorough else 14
    for i in range(nup):
        boundary, body = gen_upload(rng, rng.choice([40, 120, 400, 1500]))
        for ks in cuts_for(rng, body, boundary, thorough):
            traces.append(mplib.run_split(boundary, body, ks, kind='wellformed'))
            chk.count(1, ('u', boundary, len(body), tuple(ks[:6]), len(ks)))
        # another upload (same boundary or not) is parsed, start to end, between any two reads of this one
        oth = (boundary, body) if i % 2 else gen_upload(rng, 120)
        for ks in cuts_for(rng, body, boundary, False)[:(30 if thorough else 8)]:
            if len(ks) > 1:
                traces.append(mplib.run_split(boundary, body, ks, kind='wellformed', between=oth))
                chk.count(1, ('between', boundary, len(body), tuple(ks[:6]), len(ks)))
        # prefixes of it
        for _ in range(6 if thorough else 3):
            p = body[:rng.randint(0, len(body))]
            for ks in cuts_for(rng, p, boundary, False)[:(40 if thorough else 12)]:
                traces.append(mplib.run_split(boundary, p, ks, kind='prefix'))
                chk.count(1, ('p', boundary, len(p), tuple(ks[:6]), len(ks)))
    # delimiter look-alikes: part data that ends one read with the first bytes of CRLF--boundary and is NOT a delimiter, a
    # following part whose data begins with the rest of the delimiter text; the padding sweeps the distance to the real
    # delimiter through every residue of the delimiter length; every single cut
    for boundary in (b'XyZ', b'b-', b'--'):
        tlen = len(b'\r\n--' + boundary)
        for head in (b'\r\n-- ', b'\r\n--' + boundary[:1] + b'!', b'\r\n-', b'\r'):
            for pad in range(0, tlen + 1, 1 if thorough else 2):
                fields = [{'name': 'a', 'value': ('pre' + head.decode('latin1') + 'q' * pad)},
                          {'name': 'tag', 'value': (boundary + b'-report').decode('latin1')},
                          {'name': 'f', 'filename': 'x.bin', 'ctype': 'application/octet-stream', 'data': boundary + b'--\r\n' + boundary}]
                body = mplib.encode_form(fields, boundary)
                if body.count(b'\r\n--' + boundary) != 3 + 0 and body.count(b'--' + boundary) != 4:
                    continue        # the look-alike must not be a real delimiter
                for c in range(1, len(body)):
                    traces.append(mplib.run_split(boundary, body, [c, len(body) - c], kind='wellformed'))
                    chk.count(1, ('lookalike', boundary, head, pad, c))
    chk.sample({'kind': 'upload', 'boundary': bytes(traces[0]['boundary']).decode('latin1'),
                'body_len': len(traces[0]['body']), 'chunks': [s['k'] for s in traces[0]['log']][:10]})
    mplib.validate(chk, traces, 'real uploads (independent encoder)')
    # large uploads: implementation-independent part of the oracle only (equality with the one-piece result)
    from ombott.request_pkg.multipart import MultipartMarkup
    for i in range(12 if thorough else 3):
        boundary, body = gen_upload(rng, rng.choice([20000, 120000, 400000]))
        if i == 0:
            # a large file first, then further parts: their headers lie tens of kilobytes behind the start of the section
            # that is open when a read ends inside them
            boundary = b'BigFirst'
            body = mplib.encode_form([{'name': 'big', 'filename': 'big.bin', 'ctype': 'application/octet-stream', 'data': mplib.nasty_bytes(rng, 40000, boundary)},
                                      {'name': 'note', 'value': 'after the big one'},
                                      {'name': 'small', 'filename': 's.txt', 'ctype': 'text/plain', 'data': b'tiny'}], boundary)
        one = MultipartMarkup(boundary)
        one.parse(body)
        ref = mplib.result(one)
        n = len(body)
        # a read that ends inside the delimiter line or the header block of a LATER part (tens of kilobytes into the body)
        later = []
        pos = body.find(b'\r\n--' + boundary, 1)
        while pos > 0 and len(later) < 40:
            for k in (1, 3, len(boundary) + 5, len(boundary) + 12, len(boundary) + 30, len(boundary) + 60):
                if pos + k < n:
                    later.append([pos + k, n - pos - k])
            pos = body.find(b'\r\n--' + boundary, pos + 1)
        for buf in [100 * 1024, 65536, 8192, 4096, 1000, 333]:
            cuts = [[buf] * (n // buf) + ([n % buf] if n % buf else [])]
            for _ in range(4):
                c = rng.randint(1, n - 1)
                cuts.append([c, n - c])
            if buf == 4096:
                cuts += later
            for ks in cuts:
                m = MultipartMarkup(boundary)
                pos = 0
                for k in ks:
                    m.parse(body[pos:pos + k])
                    pos += k
                chk.count(1, ('big', n, buf, len(ks)))
                if mplib.result(m) != ref:
                    chk.violation('large upload (%d bytes, boundary %r) parsed in %d chunks differs from the one-piece result'
                                  % (n, boundary, len(ks)),
                                  {'boundary_hex': boundary.hex(), 'body_len': n, 'ks': ks[:50], 'kind': 'wellformed-large',
                                   'final_error': mplib.result(m)['error'], 'oneshot_error': ref['error']})
    chk.extra['assumptions'] = [
        'well-formed = delimiter does not occur inside part data (RFC 2046); header blocks are non-empty',
        'uploads > 2 kB are compared with the real one-piece result in the harness only (content too large for TLC)',
    ]
    chk.extra['rule'] = ('TLC behaviours (state-cover + simulation) replayed, and independently encoded uploads under all '
                         'single cuts / double cuts near delimiters / byte-at-a-time / regular cuts; distinct by (boundary, body, division)')


def replay(path):
    case = json.load(open(path))['case']
    if 'body_hex' not in case:
        print('replay: large body not stored; re-run with the same VERIF_SEED')
        return 2
    t = mplib.run_split(bytes.fromhex(case['boundary_hex']), bytes.fromhex(case['body_hex']), case['ks'], kind=case['kind'])
    print(json.dumps({'split': t['final'], 'oneshot': t['oneshot']}))
    return 1 if t['final'] != t['oneshot'] else 0
