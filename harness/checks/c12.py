"""C12: malformed request bodies yield client errors, never server faults. See specs/Fields.tla, FieldsTrace.tla."""
import json
import random

from harness import core
from harness.checks import formlib as fl, mplib
from harness.checks.c07 import gen_fields


def mutate(rng, body, boundary):
    """Grammar mutations of a well-formed multipart body."""
    delim = b'--' + boundary
    k = rng.choice(['trunc', 'trunc', 'dropdelim', 'dupdelim', 'nocolon', 'emptyval', 'noname', 'badutf8hdr', 'badutf8val', 'junkstart',
                    'nofinal', 'lfonly', 'extracr', 'randbyte', 'delimjunk', 'noblank', 'lowercd'])
    if k == 'trunc':
        return body[:rng.randint(0, max(0, len(body) - 1))], k
    if k == 'dropdelim':
        i = body.find(delim, rng.randint(0, max(0, len(body) - 1)))
        return (body[:i] + body[i + len(delim):], k) if i >= 0 else (body[:-3], k)
    if k == 'dupdelim':
        i = body.find(delim)
        return body[:i] + delim + b'\r\n' + body[i:], k
    if k == 'nocolon':
        return body.replace(b'Content-Disposition: ', b'Content-Disposition ', 1), k
    if k == 'emptyval':
        return body.replace(b'Content-Disposition: form-data', rng.choice([b'Content-Disposition:', b'Content-Disposition: ', b'X:']), 1), k
    if k == 'noname':
        return body.replace(b' name="', b' nme="', 1), k
    if k == 'badutf8hdr':
        return body.replace(b'name="', b'name="\xff\xfe', 1), k
    if k == 'badutf8val':
        i = body.find(b'\r\n\r\n')
        return (body[:i + 4] + b'\xc3\x28' + body[i + 4:], k) if i >= 0 else (b'\xff', k)
    if k == 'junkstart':
        return rng.choice([b'junk', b'\r\njunk\r\n', b'-', b'--', b'\r']) + body, k
    if k == 'nofinal':
        return body.replace(delim + b'--', b'', 1), k
    if k == 'lfonly':
        return body.replace(b'\r\n', b'\n', rng.choice([1, 2, 100])), k
    if k == 'extracr':
        i = rng.randint(0, len(body))
        return body[:i] + b'\r' + body[i:], k
    if k == 'randbyte':
        if not body:
            return b'\x00', k
        i = rng.randrange(len(body))
        return body[:i] + bytes([rng.randrange(256)]) + body[i + 1:], k
    if k == 'delimjunk':
        return body.replace(delim + b'\r\n', delim + rng.choice([b'xx\r\n', b' \r\n', b'-\r\n', b'\rx']), 1), k
    if k == 'noblank':
        return body.replace(b'\r\n\r\n', b'\r\n', 1), k
    return body.replace(b'Content-Disposition', b'content-disposition', 1), k


def run(chk):
    rng = random.Random(chk.seed * 23 + 12)
    thorough = chk.tier == 'thorough'
    ws = core.tla_workspace()
    r = core.run_tlc(ws, 'MC_Fields', 'MC_Fields.cfg', allow_violation=True)
    chk.add_tlc(r, 'exhaustive MC_Fields (reference parse of well-formed forms)')
    if not r.ok:
        raise core.MachineryError('model-level: %s' % r.violated)
    chk.exhaustive = True
    by_b = {}
    boundaries = [b'B', b'Bx', b'----WebKitFormBoundaryAb12', mplib.rand_boundary(rng)]
    n = 9000 if thorough else 1400
    for _ in range(n):
        b = rng.choice(boundaries)
        fs = gen_fields(rng, b, nmax=3)
        good = mplib.encode_form(fs, b, epilogue=rng.choice([b'', b'\r\n']))
        body, how = mutate(rng, good, b)
        if rng.random() < 0.1:
            body, how2 = mutate(rng, body, b)
            how += '+' + how2
        buf = rng.choice([7, 16, 64, 1000, 100 * 1024, 100 * 1024])
        ctype = 'multipart/form-data; boundary=' + b.decode()
        r_ = rng.random()
        if r_ < 0.06:
            ctype = rng.choice(['Multipart/Form-Data; boundary=', 'MULTIPART/FORM-DATA; BOUNDARY=']) + b.decode()
        elif r_ < 0.10:
            ctype = rng.choice(['multipart/form-data', 'multipart/form-data; boundary=', 'multipart/form-data; boundary=other', 'multipart/mixed; boundary=' + b.decode()])
        what = rng.choice(['forms+files', 'forms', 'files', 'post', 'body', 'params', 'forms+files+body'])
        res = fl.post(buf, body, ctype, what=what, chunked=rng.random() < 0.3, rng=rng, time_limit=5.0)
        t = fl.to_trace(body, buf, 'mutated' if ctype == 'multipart/form-data; boundary=' + b.decode() else 'raw', None, res, full=what.startswith('forms+files') and res['one_piece'])
        by_b.setdefault(b, []).append((t, {'ctype': ctype, 'buf': buf, 'how': how, 'what': what, 'errors': res.get('errors', '')}))
        chk.count(1, ('mp', how, b, body, buf, what))
    # exhaustive truncation of a few forms at EVERY offset
    for b in (b'B', b'Bx'):
        for _ in range(6 if thorough else 2):
            fs = gen_fields(rng, b, nmax=2)
            good = mplib.encode_form(fs, b)
            for cut in range(len(good)):
                buf = rng.choice([7, 64, 1000])
                res = fl.post(buf, good[:cut], 'multipart/form-data; boundary=' + b.decode(), what='forms+files', time_limit=5.0)
                t = fl.to_trace(good[:cut], buf, 'mutated', None, res)
                by_b.setdefault(b, []).append((t, {'ctype': 'multipart', 'buf': buf, 'how': 'trunc@%d' % cut, 'what': 'forms+files', 'errors': res.get('errors', '')}))
                chk.count(1, ('trunc', b, good, cut))
    # JSON and urlencoded and arbitrary bytes under other content types
    jsons = [b'{', b'[1]', b'3', b'', b'null', b'"s"', b'{"a": 1}', b'{"a": [1, {"b": null}]}', b'\xff\xfe', b'{"a":' + b'[' * 50, b'{"a": 1}x', b' ', b'true',
             b'{"k": "' + b'v' * 300 + b'"}', b'[' * 5000]
    ctypes = ['application/json', 'application/json; charset=utf-8', 'APPLICATION/JSON', 'application/x-www-form-urlencoded', 'text/plain', '',
              'application/jsonx', 'multipart/form-data']
    for _ in range(3000 if thorough else 500):
        if rng.random() < 0.5:
            body = rng.choice(jsons)
        else:
            body = bytes(rng.choice(b'a=&%+;\xff\x00\r\n{}[]":1') for _ in range(rng.randint(0, 40)))
        ctype = rng.choice(ctypes)
        buf = rng.choice([4, 16, 100, 100 * 1024])
        what = rng.choice(['json', 'forms', 'post', 'params', 'body', 'files', 'json+forms', 'forms+json'])
        res = fl.post(buf, body, ctype, what=what, chunked=rng.random() < 0.3, rng=rng, time_limit=5.0)
        t = fl.to_trace(body, buf, 'raw', None, res)
        by_b.setdefault(b'B', []).append((t, {'ctype': ctype, 'buf': buf, 'how': 'raw', 'what': what, 'errors': res.get('errors', '')}))
        chk.count(1, ('raw', ctype, body, buf, what))
    t0, m0 = by_b[b'B'][0]
    chk.sample({'mutation': m0['how'], 'body': bytes(t0['body']).decode('latin1')[:200], 'reads': m0['what'], 'status': t0['status']})

    def describe(t, m, rel, bnd):
        chk.violation('C12: %s fails: %s body %r... (Content-Type %r, max_memfile_size %s, handler reads %s) -> status %s%s %s'
                      % (rel, m['how'], bytes(t['body'])[:120], m['ctype'], m['buf'], m['what'], t['status'],
                         ' (exception escaped)' if t['escaped'] else '', m['errors'].strip().splitlines()[-1:] if m['errors'] else ''),
                      {'body_hex': bytes(t['body']).hex()[:20000], 'ctype': m['ctype'], 'buf': m['buf'], 'what': m['what'], 'mutation': m['how'], 'clauses': rel})
    fl.validate(chk, by_b, 'C12', {'ClientErrorOnly', 'DeliveredTerminated'}, describe)
    chk.extra['assumptions'] = ['CONTENT_LENGTH is a number (the server guarantees it)', 'a request taking more than 5 s counts as a hang']
    chk.extra['rule'] = 'grammar-mutated multipart bodies (17 mutation kinds, truncation at every offset), JSON documents of every kind, random urlencoded/binary junk x content types (case variants, missing/other boundary) x what the handler reads x framing x buffer sizes'


def replay(path):
    case = json.load(open(path))['case']
    res = fl.post(case['buf'], bytes.fromhex(case['body_hex']), case['ctype'], what=case['what'])
    print(json.dumps(res)[:3000])
    return 1
