"""C12: malformed request bodies yield client errors, never server faults. See specs/Fields.tla, FieldsTrace.tla."""
import json
import random

from harness import core
from harness.checks import formlib as fl, mplib
from harness.checks.c07 import gen_fields


def mutate(rng, body, boundary):
    """Grammar mutations of a well-formed multipart body."""
    delim = b'--' + boundary
    k = rng.choice(['trunc', 'trunc', 'dropdelim', 'dupdelim', 'nocolon', 'emptyval', 'noname', 'badutf8hdr', 'badutf8val', 'junkstart',
                    'nofinal', 'lfonly', 'extracr', 'randbyte', 'delimjunk', 'noblank', 'lowercd', 'unclosedquote', 'longopt', 'partctype', 'hdrctl',
                    'hdrctl', 'none'])
    if k == 'hdrctl':
        # a control octet (NUL and friends) inside the value of a header line of a part -- file parts included
        parts = [i for i in range(len(body)) if body.startswith(b'\r\n\r\n', i)]
        if not parts:
            return body + b'\x00', k
        i = rng.choice(parts)
        octet = bytes([rng.choice([0, 0, 0, 1, 8, 127, 27])])      # VT/FF would be line breaks for str.splitlines (not modelled)
        line = rng.choice([b'\r\nContent-Type: image' + octet + b'/png', b'\r\nX-Note: a' + octet + b'b', b'\r\nContent-Transfer-Encoding: ' + octet, octet])
        return body[:i] + line + body[i:], k
    if k == 'none':
        return body, k
    if k == 'unclosedquote':
        # the closing quote of an option value is missing (short and long values)
        i = body.find(b'name="')
        if i < 0:
            return body + b'"', k
        j = body.find(b'"', i + 6)
        filler = bytes(rng.choice(b'abcdefgh xyz.-_') for _ in range(rng.choice([0, 5, 30, 60, 120])))
        return body[:j] + filler + body[j + 1:], k
    if k == 'longopt':
        filler = bytes(rng.choice(b'abcdefgh xyz.-_;=') for _ in range(rng.choice([30, 80, 300])))
        return body.replace(b'name="', b'name="' + filler, 1), k
    if k == 'partctype':
        # a Content-Type line on a part, with charset parameters of every kind
        ct = rng.choice([b'text/plain', b'text/plain; charset=utf-8', b'text/plain; charset=latin1', b'text/plain; charset=binary',
                         b'text/plain; charset=x-user-defined', b'text/plain; charset=', b'text/plain; charset="utf-8', b'x; charset=hex',
                         b'text/plain; charset=\xff', b'; charset', b'text/plain;;;=', b'application/octet-stream; charset=no-such-codec'])
        i = body.find(b'\r\n\r\n')
        return (body[:i] + b'\r\nContent-Type: ' + ct + body[i:], k) if i >= 0 else (body, k)
    if k == 'trunc':
        return body[:rng.randint(0, max(0, len(body) - 1))], k
    if k == 'dropdelim':
        i = body.find(delim, rng.randint(0, max(0, len(body) - 1)))
        return (body[:i] + body[i + len(delim):], k) if i >= 0 else (body[:-3], k)
    if k == 'dupdelim':
        i = body.find(delim)
        return body[:i] + delim + b'\r\n' + body[i:], k
    if k == 'nocolon':
        return body.replace(b'Content-Disposition: ', b'Content-Disposition ', 1), k
    if k == 'emptyval':
        return body.replace(b'Content-Disposition: form-data', rng.choice([b'Content-Disposition:', b'Content-Disposition: ', b'X:']), 1), k
    if k == 'noname':
        return body.replace(b' name="', b' nme="', 1), k
    if k == 'badutf8hdr':
        return body.replace(b'name="', b'name="\xff\xfe', 1), k
    if k == 'badutf8val':
        i = body.find(b'\r\n\r\n')
        return (body[:i + 4] + b'\xc3\x28' + body[i + 4:], k) if i >= 0 else (b'\xff', k)
    if k == 'junkstart':
        return rng.choice([b'junk', b'\r\njunk\r\n', b'-', b'--', b'\r']) + body, k
    if k == 'nofinal':
        return body.replace(delim + b'--', b'', 1), k
    if k == 'lfonly':
        return body.replace(b'\r\n', b'\n', rng.choice([1, 2, 100])), k
    if k == 'extracr':
        i = rng.randint(0, len(body))
        return body[:i] + b'\r' + body[i:], k
    if k == 'randbyte':
        if not body:
            return b'\x00', k
        i = rng.randrange(len(body))
        return body[:i] + bytes([rng.randrange(256)]) + body[i + 1:], k
    if k == 'delimjunk':
        return body.replace(delim + b'\r\n', delim + rng.choice([b'xx\r\n', b' \r\n', b'-\r\n', b'\rx']), 1), k
    if k == 'noblank':
        return body.replace(b'\r\n\r\n', b'\r\n', 1), k
    return body.replace(b'Content-Disposition', b'content-disposition', 1), k


def run(chk):
    rng = random.Random(chk.seed * 23 + 12)
    thorough = chk.tier == 'thorough'
    ws = core.tla_workspace()
    r = core.run_tlc(ws, 'MC_Fields', 'MC_Fields.cfg', allow_violation=True)
    chk.add_tlc(r, 'exhaustive MC_Fields (reference parse of well-formed forms)')
    if not r.ok:
        raise core.MachineryError('model-level: %s' % r.violated)
    chk.exhaustive = True
    by_b = {}
    boundaries = [b'B', b'Bx', b'----WebKitFormBoundaryAb12', mplib.rand_boundary(rng)]
    n = 9000 if thorough else 1400
    specs, metas = [], []

    def add(b, body, ctype, buf, what, how, kind, chunked=False, cut=None, in_thread=False, full_ok=True):
        specs.append({'buf': buf, 'body': body, 'ctype': ctype, 'what': what, 'chunked': chunked, 'seed': rng.randrange(10 ** 9),
                      'cut_wire': cut, 'in_thread': in_thread})
        metas.append({'b': b, 'body': body, 'ctype': ctype, 'buf': buf, 'how': how, 'what': what, 'kind': kind, 'full_ok': full_ok})
    for _ in range(n):
        b = rng.choice(boundaries)
        fs = gen_fields(rng, b, nmax=3)
        good = mplib.encode_form(fs, b, epilogue=rng.choice([b'', b'\r\n']))
        body, how = mutate(rng, good, b)
        if rng.random() < 0.1:
            body, how2 = mutate(rng, body, b)
            how += '+' + how2
        buf = rng.choice([7, 16, 64, 1000, 100 * 1024, 100 * 1024])
        canon = 'multipart/form-data; boundary=' + b.decode()
        ctype = canon
        r_ = rng.random()
        if r_ < 0.06:
            ctype = rng.choice(['Multipart/Form-Data; boundary=', 'MULTIPART/FORM-DATA; BOUNDARY=']) + b.decode()
        elif r_ < 0.10:
            ctype = rng.choice(['multipart/form-data', 'multipart/form-data; boundary=', 'multipart/form-data; boundary=other', 'multipart/mixed; boundary=' + b.decode()])
        what = rng.choice(['forms+files', 'forms', 'files', 'post', 'body', 'params', 'forms+files+body'])
        chunked = rng.random() < 0.3
        cut = rng.random() if (chunked and rng.random() < 0.35) else None
        if cut is not None:
            how += '+framing-cut'
        add(b, body, ctype, buf, what, how, 'mutated' if (ctype == canon and cut is None) else 'raw', chunked, cut, rng.random() < 0.25,
            full_ok=what.startswith('forms+files'))
    # well-formed forms whose part data ends like the beginning of a delimiter (bare CR, CRLF, CRLF-, CRLF--b), at every
    # alignment of the scanner's window: what is delivered is still the data of delimiter-terminated parts
    for b in (b'B', b'Bx'):
        tl = len(b'\r\n--' + b)
        for tail in ('\r', '\r\n', '\r\n-', '\r\n--', '\r\n--' + b.decode()[:1] + '!'):
            if tail.endswith('!') and len(b) < 2:
                tail = '\r\n--!'
            for pad in range(0, 2 * tl + 1):
                fs = [{'name': 'a', 'value': 'q' * pad + tail}, {'name': 'b', 'value': 'second'},
                      {'name': 'f', 'filename': 'x.bin', 'ctype': 'application/octet-stream', 'data': b'w' * (pad % 5) + tail.encode()}]
                good = mplib.encode_form(fs, b)
                add(b, good, 'multipart/form-data; boundary=' + b.decode(), rng.choice([64, 1000, 100 * 1024]), 'forms+files', 'lookalike-tail', 'mutated',
                    chunked=pad % 3 == 0)
    # exhaustive truncation of a few forms at EVERY offset
    for b in (b'B', b'Bx'):
        for _ in range(6 if thorough else 2):
            fs = gen_fields(rng, b, nmax=2)
            good = mplib.encode_form(fs, b)
            for cut_at in range(len(good)):
                add(b, good[:cut_at], 'multipart/form-data; boundary=' + b.decode(), rng.choice([7, 64, 1000]), 'forms+files', 'trunc@%d' % cut_at, 'mutated')
    # JSON and urlencoded and arbitrary bytes under other content types
    jsons = [b'NaN', b'[Infinity]', b'{"a": -Infinity}', b'{"a": NaN, "b": 1}', b'[1, NaN]', b'{', b'[1]', b'3', b'', b'null', b'"s"', b'{"a": 1}', b'{"a": [1, {"b": null}]}', b'\xff\xfe', b'{"a":' + b'[' * 50, b'{"a": 1}x', b' ', b'true',
             b'{"k": "' + b'v' * 300 + b'"}', b'[' * 5000]
    ctypes = ['application/json', 'application/json; charset=utf-8', 'APPLICATION/JSON', 'application/x-www-form-urlencoded', 'text/plain', '',
              'application/jsonx', 'multipart/form-data']
    for _ in range(3000 if thorough else 500):
        if rng.random() < 0.5:
            body = rng.choice(jsons)
        else:
            body = bytes(rng.choice(b'a=&%+;\xff\x00\r\n{}[]":1') for _ in range(rng.randint(0, 40)))
        chunked = rng.random() < 0.3
        add(b'B', body, rng.choice(ctypes), rng.choice([4, 16, 100, 100 * 1024]),
            rng.choice(['json', 'forms', 'post', 'params', 'body', 'files', 'json+forms', 'forms+json']), 'raw', 'raw', chunked,
            rng.random() if (chunked and rng.random() < 0.35) else None, rng.random() < 0.25)
    # chunked framing whose size line announces an absurd number of bytes (up to and beyond what a machine word holds):
    # a malformed body like any other
    for size in ('7fffffffffffffff', '8000000000000000', 'ffffffffffffffffffffffff', '4000000000000000', '1000000000000', '0000000000000000000000fffffffffffffffffff'):
        for tail in (b'hello\r\n0\r\n\r\n', b'', b'x' * 300):
            for wh in ('body', 'forms', 'json', 'forms+files'):
                add(b'B', b'', rng.choice(['text/plain', 'application/json', 'application/x-www-form-urlencoded', 'multipart/form-data; boundary=B']),
                    rng.choice([64, 1000, 100 * 1024]), wh, 'absurd-chunk-size ' + size, 'raw', chunked=False, in_thread=rng.random() < 0.3)
                specs[-1]['raw_wire'] = (size.encode() + b'\r\n' + tail).hex()
    results = fl.post_batch(specs, time_limit=5.0)
    for sp, m, res in zip(specs, metas, results):
        t = fl.to_trace(m['body'], m['buf'], m['kind'], None, res, full=m['full_ok'] and m['kind'] == 'mutated' and res.get('one_piece', False))
        by_b.setdefault(m['b'], []).append((t, {'ctype': m['ctype'], 'buf': m['buf'], 'how': m['how'], 'what': m['what'], 'errors': res.get('errors', ''),
                                                'in_thread': sp['in_thread'], 'hang': res['hang']}))
        chk.count(1, (m['how'], m['b'], m['body'], m['buf'], m['what'], m['ctype']))
    t0, m0 = by_b[b'B'][0]
    chk.sample({'mutation': m0['how'], 'body': bytes(t0['body']).decode('latin1')[:200], 'reads': m0['what'], 'status': t0['status']})

    def describe(t, m, rel, bnd):
        chk.violation('C12: %s fails: %s body %r... (Content-Type %r, max_memfile_size %s, handler reads %s) -> status %s%s %s'
                      % (rel, m['how'], bytes(t['body'])[:120], m['ctype'], m['buf'], m['what'], t['status'],
                         ' (exception escaped)' if t['escaped'] else (' (HANG: no answer within the time limit)' if m.get('hang') else '') + (' [served from a worker thread]' if m.get('in_thread') else ''),
                         m['errors'].strip().splitlines()[-1:] if m['errors'] else ''),
                      {'body_hex': bytes(t['body']).hex()[:20000], 'ctype': m['ctype'], 'buf': m['buf'], 'what': m['what'], 'mutation': m['how'], 'clauses': rel})
    fl.validate(chk, by_b, 'C12', {'ClientErrorOnly', 'DeliveredTerminated'}, describe)
    chk.extra['assumptions'] = ['CONTENT_LENGTH is a number (the server guarantees it)', 'a request taking more than 5 s counts as a hang']
    chk.extra['rule'] = 'grammar-mutated multipart bodies (17 mutation kinds, truncation at every offset), JSON documents of every kind, random urlencoded/binary junk x content types (case variants, missing/other boundary) x what the handler reads x framing x buffer sizes'


def replay(path):
    case = json.load(open(path))['case']
    res = fl.post(case['buf'], bytes.fromhex(case['body_hex']), case['ctype'], what=case['what'])
    print(json.dumps(res)[:3000])
    return 1
