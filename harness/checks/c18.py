"""C18: query strings and urlencoded forms decode to exactly what was sent. See specs/Query.tla."""
import io
import itertools
import json
import os
import random
from urllib.parse import urlencode

from harness import core
from harness.checks.bodylib import base_environ

CPS = [97, 98, 61, 38, 43, 37, 32, 59, 35, 63, 47, 49, 233, 8364, 0x1F600, 0x4E2D, 126, 95, 34, 39, 60, 10, 13, 0x7F, 0xFF, 0x100, 0x7FF, 0x800, 0xFFFF,
       # text that is not in a Unicode normal form: combining marks after a base letter, conjoining jamo, compatibility signs
       101, 0x301, 0x308, 0x1100, 0x1161, 0x2126, 0x212A, 0x212B, 0xFB01, 0x0041, 0x030A]


def s2l(s):
    return [ord(c) for c in s]


def res_of(d):
    out = []
    for k, v in d.items():
        if isinstance(v, list):
            out.append([s2l(k), True, [s2l(x) for x in v]])
        else:
            out.append([s2l(k), False, [s2l(v)]])
    return out


def long_tokens(chk):
    """Names and values of many thousand characters (a textarea, a pasted document): the same RoundTrip clause, judged in
    the harness as plain equality with what was submitted -- tokens of this size are too long for TLC's sequences."""
    from urllib.parse import quote, quote_plus
    cases = [[('a', 'x' * 9000)], [('a', 'x' * 8193), ('b', '2')], [('k' * 8200, 'v')], [('t', '\u0416' * 1400), ('u', 'end')],
             [('a', 'x' * 8192)], [('a', '1'), ('a', 'y' * 20000), ('a', '3')], [('e', ('%' + '\u20ac') * 3000)]]
    for pairs in cases:
        for enc in (quote, quote_plus):
            raw = '&'.join('%s=%s' % (enc(k, safe=''), enc(v, safe='')) for k, v in pairs)
            want = {}
            for k, v in pairs:
                want.setdefault(k, []).append(v)
            for ch in ('query', 'forms'):
                res, exc = parse_via(ch, raw)
                got = {''.join(map(chr, k)): [''.join(map(chr, x)) for x in vs] for k, _islist, vs in res}
                chk.count(1, ('long', ch, len(raw), len(pairs)))
                if exc or got != want:
                    chk.violation("C18: ['RoundTrip'] fails: %d pair(s) with a token of %d characters, sent as %d characters through %s: %s, got %d key(s) with value lengths %s"
                                  % (len(pairs), max(len(k) + len(v) for k, v in pairs), len(raw), ch, exc or 'no exception', len(got),
                                     [[len(k), [len(x) for x in vs]] for k, vs in got.items()][:6]),
                                  {'raw': raw[:200], 'pairs': [[k[:20], len(v)] for k, v in pairs], 'channel': ch, 'clauses': ['RoundTrip'], 'long': True})


def parse_via(channel, raw):
    """channel: 'qsl' | 'query' | 'forms' | 'params' | 'forms-after-body'"""
    from ombott import Ombott
    from ombott.request_pkg.helpers import parse_qsl, FormsDict
    # 10 s for every call as long as none has hung; once a call HAS hung for 10 s (a violation already) the calls after it get
    # less, so that a scanner that hangs on a whole class of strings does not cost ten seconds per string
    hangs = getattr(parse_via, 'hangs', 0)
    try:
        with core.time_limit(10 if hangs == 0 else (1.0 if hangs < 3 else 0.25)):
            return _parse_via(channel, raw)
    except core.Hang:
        parse_via.hangs = hangs + 1
        return [], 'Hang'


def _parse_via(channel, raw):
    from ombott import Ombott
    from ombott.request_pkg.helpers import parse_qsl, FormsDict
    try:
        if channel == 'qsl':
            d = FormsDict()
            parse_qsl(raw, setitem=d.__setitem__)
            return res_of(d), ''
        app = parse_via.app
        if channel == 'query-after-rewrite':
            # the query is read, the application rewrites QUERY_STRING through the request object, the query is read again
            env = base_environ(QUERY_STRING=parse_via.before)
            app.request.__init__(env)
            _first = res_of(app.request.query), len(app.request.params)
            app.request['QUERY_STRING'] = raw
            return res_of(app.request.query), ''
        if channel == 'query':
            env = base_environ(QUERY_STRING=raw)
            app.request.__init__(env)
            return res_of(app.request.query), ''
        if channel == 'query-after-params':
            # the handler reads the combined view first (query + a form body that repeats some names), then the query: the
            # query is still the query
            fb = (parse_via.before or 'zz=1').encode('latin1')
            env = base_environ(QUERY_STRING=raw, REQUEST_METHOD='POST', CONTENT_LENGTH=str(len(fb)), CONTENT_TYPE='application/x-www-form-urlencoded')
            env['wsgi.input'] = io.BytesIO(fb)
            app.request.__init__(env)
            _p = len(app.request.params)
            return res_of(app.request.query), ''
        body = raw.encode('latin1')
        # the media type as clients spell it: bare, with a charset parameter (jQuery, axios), other case, white space, or absent
        spell = ['application/x-www-form-urlencoded', 'application/x-www-form-urlencoded; charset=UTF-8', 'application/x-www-form-urlencoded;charset=utf-8',
                 'Application/X-WWW-Form-Urlencoded', 'application/x-www-form-urlencoded ; charset=UTF-8', None][(len(raw) + sum(body[:3])) % 6]
        env = base_environ(REQUEST_METHOD='POST', CONTENT_LENGTH=str(len(body)))
        if spell:
            env['CONTENT_TYPE'] = spell
        env['wsgi.input'] = io.BytesIO(body)
        if channel == 'forms-chunked':
            # the same form sent with chunked framing; a Content-Length that a careless proxy left beside it does not count
            # (RFC 7230 3.3.3: Transfer-Encoding overrides Content-Length)
            cut = max(1, len(body) // 3)
            wire = b''.join(b'%x\r\n%s\r\n' % (len(p_), p_) for p_ in (body[:cut], body[cut:]) if p_) + b'0\r\n\r\n'
            env['wsgi.input'] = io.BytesIO(wire)
            env['HTTP_TRANSFER_ENCODING'] = 'chunked'
            if len(raw) % 2:
                env['CONTENT_LENGTH'] = str(max(1, len(body) // 2))
            else:
                del env['CONTENT_LENGTH']
        app.request.__init__(env)
        if channel == 'forms-chunked':
            return res_of(app.request.forms), ''
        if channel == 'query-after-rewrite':
            raise AssertionError('handled above')
        if channel == 'forms-after-body':
            # a signature check or a logging hook has already read (part of) the body
            b = app.request.body
            b.read(parse_via.peek)
            return res_of(app.request.forms), ''
        if channel == 'forms':
            return res_of(app.request.forms), ''
        return res_of(app.request.params), ''
    except Exception as e:   # noqa
        return [], type(e).__name__


def run(chk):
    from ombott import Ombott
    parse_via.app = Ombott()
    rng = random.Random(chk.seed * 17 + 18)
    thorough = chk.tier == 'thorough'
    ws = core.tla_workspace()
    r = core.run_tlc(ws, 'MC_Query', 'MC_Query.cfg', allow_violation=True, timeout=3000)
    chk.add_tlc(r, 'exhaustive small scope (raw strings, pair lists)')
    if not r.ok:
        raise core.MachineryError('model-level: %s\n%s' % (r.violated, r.out[-1500:]))
    chk.exhaustive = True
    if thorough:
        r = core.run_tlc(ws, 'MC_Query', 'MC_Query_t.cfg', allow_violation=True, budget=2400)
        chk.add_tlc(r, 'exhaustive larger scope' + ('' if r.complete else ' (stopped by the time budget)'))
        if not r.ok:
            raise core.MachineryError('model-level: %s\n%s' % (r.violated, r.out[-1500:]))
    long_tokens(chk)
    traces = []
    # (a) every raw string of length <= 4 (quick) / 5 over the separator alphabet, through parse_qsl and Request.query
    alpha = 'a=&+%41;'
    for L in range(0, 6 if thorough else 5):
        for t in itertools.product(alpha, repeat=L):
            raw = ''.join(t)
            res, exc = parse_via('qsl', raw)
            traces.append({'raw': s2l(raw), 'pairs': [], 'res': res, 'exc': exc, 'exact': True, 'ch': 'qsl'})
            chk.count(1, ('raw', raw))
    # random raw junk incl. invalid escapes and non-ASCII (totality only)
    junk = 'a=&+%;zZ9 \xe9€%C3%A9%FF%zz%4%%'
    for _ in range(4000 if thorough else 600):
        raw = ''.join(rng.choice(junk) for _ in range(rng.randint(0, 24)))
        ch = rng.choice(['qsl', 'query', 'forms', 'params'])
        if ch in ('forms', 'params'):
            # a form body is bytes: raw octets that are not valid UTF-8 (a Latin-1 client, a cut multi-byte sequence) included
            raw = ''.join(c if ord(c) < 256 else rng.choice('\xe9\xff\xc3\x80') for c in raw) or '\xe9=\xff'
        res, exc = parse_via(ch, raw)
        traces.append({'raw': s2l(raw), 'pairs': [], 'res': res, 'exc': exc, 'exact': False, 'ch': ch})
        chk.count(1, ('junk', raw))
    # (b) pair lists encoded by urllib (independent encoder), through every channel
    for _ in range(6000 if thorough else 900):
        n = rng.choice([0, 1, 1, 2, 3, 5, 8])
        keys = [''.join(chr(rng.choice(CPS)) for _ in range(rng.randint(1, 4))) for _ in range(max(1, n // 2 + 1))]
        pairs = [(rng.choice(keys), ''.join(chr(rng.choice(CPS)) for _ in range(rng.choice([0, 1, 2, 5])))) for _ in range(n)]
        raw = urlencode(pairs)
        ch = rng.choice(['qsl', 'query', 'forms', 'params', 'forms-after-body', 'query-after-rewrite', 'forms-chunked', 'query-after-params'])
        if ch in ('forms', 'params', 'forms-after-body', 'forms-chunked') and not raw:
            ch = 'query'
        parse_via.peek = rng.choice([-1, 0, 1, 7])
        parse_via.before = rng.choice(['old=1&a=2', 'x', '', 'a=b&a=c'])
        res, exc = parse_via(ch, raw)
        traces.append({'raw': s2l(raw), 'pairs': [[s2l(k), s2l(v)] for k, v in pairs], 'res': res, 'exc': exc, 'exact': True, 'ch': ch})
        chk.count(1, ('pairs', raw, ch))
    chk.sample({'kind': 'pairs', 'submitted': [[k, v] for k, v in pairs][:4], 'raw': raw[:80], 'channel': ch})
    chk.sample({'kind': 'raw', 'raw': 'a=1&&b&=c&%', 'result': parse_via('qsl', 'a=1&&b&=c&%')[0]})
    # one key spelled in several legal ways inside one string ('+' / %20, upper / lower hex, escaped letters): it is ONE key
    from urllib.parse import quote as _q
    for _ in range(400 if thorough else 80):
        k = ''.join(chr(rng.choice([97, 32, 47, 233, 43, 38, 98])) for _ in range(rng.randint(1, 3)))
        spell = [_q(k, safe='').replace('%20', '+'), _q(k, safe=''), _q(k, safe='').lower(), ''.join('%%%02X' % b for b in k.encode('utf8'))]
        vals = ['1', '2', '3'][:rng.randint(2, 3)]
        raw = '&'.join('%s=%s' % (rng.choice(spell), v) for v in vals)
        ch = rng.choice(['qsl', 'query', 'forms'])
        res, exc = parse_via(ch, raw)
        traces.append({'raw': s2l(raw), 'pairs': [[s2l(k), s2l(v)] for v in vals], 'res': res, 'exc': exc, 'exact': True, 'ch': ch})
        chk.count(1, ('spellings', raw, ch))
    # a handler may use the lists it gets for repeated keys as scratch space: the next request with the same string is parsed afresh
    for _ in range(100 if thorough else 30):
        raw = 'tag=zeta&tag=beta&x=%d' % rng.randrange(3)
        env = base_environ(QUERY_STRING=raw)
        parse_via.app.request.__init__(env)
        q1 = parse_via.app.request.query
        for v in list(q1.values()):
            if isinstance(v, list):
                v.sort()
                v.append('all')
                v.pop(0)
        res, exc = parse_via('query', raw)
        traces.append({'raw': s2l(raw), 'pairs': [[s2l('tag'), s2l('zeta')], [s2l('tag'), s2l('beta')], [s2l('x'), s2l(raw[-1])]], 'res': res, 'exc': exc,
                       'exact': True, 'ch': 'query-after-mutation'})
        chk.count(1, ('mutated-then-again', raw))
    # the same field name in the query string and in the form body: never an exception (which value wins is not judged)
    for _ in range(300 if thorough else 60):
        k = ''.join(chr(rng.choice(CPS)) for _ in range(rng.randint(1, 3)))
        q = [(k, 'from-query'), ('only-q', '1')]
        f = [(k, 'from-body'), ('only-f', '2')] + ([(k, 'again')] if rng.random() < 0.3 else [])
        body = urlencode(f).encode('latin1')
        env = base_environ(REQUEST_METHOD='POST', CONTENT_TYPE='application/x-www-form-urlencoded', CONTENT_LENGTH=str(len(body)), QUERY_STRING=urlencode(q))
        env['wsgi.input'] = io.BytesIO(body)
        try:
            parse_via.app.request.__init__(env)
            res, exc = res_of(parse_via.app.request.params), ''
        except Exception as e:   # noqa
            res, exc = [], type(e).__name__
        traces.append({'raw': s2l(urlencode(q + f)), 'pairs': [], 'res': res, 'exc': exc, 'exact': False, 'ch': 'params-overlap'})
        chk.count(1, ('overlap', urlencode(q + f)))
    # params = query + forms merged (disjoint keys)
    for _ in range(300 if thorough else 60):
        q = [('q' + chr(rng.choice(CPS)), chr(rng.choice(CPS))) for _ in range(2)]
        f = [('f' + chr(rng.choice(CPS)), chr(rng.choice(CPS))) for _ in range(2)]
        body = urlencode(f).encode('latin1')
        env = base_environ(REQUEST_METHOD='POST', CONTENT_TYPE='application/x-www-form-urlencoded', CONTENT_LENGTH=str(len(body)),
                           QUERY_STRING=urlencode(q))
        env['wsgi.input'] = io.BytesIO(body)
        try:
            parse_via.app.request.__init__(env)
            res, exc = res_of(parse_via.app.request.params), ''
        except Exception as e:   # noqa
            res, exc = [], type(e).__name__
        allp = q + [p for p in f]
        if len({k for k, _ in allp}) == len(allp):
            traces.append({'raw': s2l(urlencode(allp)), 'pairs': [[s2l(k), s2l(v)] for k, v in allp], 'res': res, 'exc': exc,
                           'exact': False, 'ch': 'params-merged'})
            chk.count(1, ('merged', urlencode(allp)))
    # TLC judges
    nchunks = 8
    chunks = [list(range(i, len(traces), nchunks)) for i in range(nchunks)]

    def one(idxs):
        w = core.tla_workspace()
        path = os.path.join(w, 'traces.json')
        with open(path, 'w') as fh:
            json.dump([{k: traces[i][k] for k in ('raw', 'pairs', 'res', 'exc', 'exact')} for i in idxs], fh)
        return idxs, core.run_tlc(w, 'QueryTrace', 'QueryTrace.cfg', workers=1, env={'TRACE_FILE': path}, timeout=3000)
    drift = []
    for idxs, r in core.parallel([(lambda c=c: one(c)) for c in chunks], max_workers=8):
        chk.add_tlc(r, 'QueryTrace (%d records)' % len(idxs))
        missing, fails = core.trace_report(r)
        for tid, cl in fails.items():
            t = traces[idxs[tid - 1]]
            chk.violation('C18: %s fails for %r through %s: result %s%s'
                          % (sorted(cl), ''.join(map(chr, t['raw']))[:80], t['ch'], json.dumps(t['res'])[:200],
                             (' exception ' + t['exc']) if t['exc'] else ''),
                          {'raw': t['raw'], 'pairs': t['pairs'], 'channel': t['ch'], 'clauses': sorted(cl), 'exc': t['exc']})
        drift += [idxs[tid - 1] for tid in missing if tid not in fails]
        chk.traces_validated += len(idxs) - len(set(missing) | set(fails))
    if drift:
        t = traces[drift[0]]
        chk.drift('C18: %d results differ from the transcribed scanner (first: %r -> %s)' % (len(drift), ''.join(map(chr, t['raw'])), t['res']))
    chk.extra['assumptions'] = ['urllib.parse.urlencode / unquote are trusted (stdlib); keys are non-empty',
                                'invalid percent-escapes are checked for totality only (errors="replace" is not modelled)']
    chk.extra['rule'] = 'all raw strings of length <= 4/5 over "a=&+%41;", random junk, random Unicode pair lists through parse_qsl / query / forms / params'


def replay(path):
    case = json.load(open(path))['case']
    from ombott import Ombott
    parse_via.app = Ombott()
    raw = ''.join(map(chr, case['raw']))
    ch = case['channel'] if case['channel'] in ('qsl', 'query', 'forms', 'params') else 'qsl'
    print(json.dumps({'raw': raw, 'result': parse_via(ch, raw)}))
    return 1
