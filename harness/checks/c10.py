from harness.checks import lifechecks


def run(chk):
    lifechecks.run_c10(chk)


def replay(path):
    import json
    print(json.dumps(json.load(open(path)), indent=1)[:3000])
    print('replay: re-run bin/check C10 with the same VERIF_SEED; the case above names the requests and the schedule')
    return 1
