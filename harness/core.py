"""Shared machinery: TLC runner, scratch dirs, evidence, known findings, verdicts.

Exit codes of a check:  0 = property held on everything explored (possibly with
KNOWN-FINDING / DRIFT lines), 1 = VIOLATION (property-level failure on the real
code, not listed in KNOWN_FINDINGS.json), 2 = machinery failure (never a verdict).
"""
import atexit
import json
import os
import re
import shutil
import subprocess
import sys
import tempfile
import time

VERIF = os.path.dirname(os.path.dirname(os.path.abspath(__file__)))
REPO = os.environ.get('VERIF_REPO', '/repo')
SPECS = os.path.join(VERIF, 'specs')
EVIDENCE = os.path.join(VERIF, 'evidence')
OUT = os.path.join(VERIF, 'out')
TLA_CP = '/opt/veriftools/tla/tla2tools.jar:/opt/veriftools/tla/CommunityModules-deps.jar'
NCPU = os.cpu_count() or 4

_scratch = []


def scratch_dir(prefix='ombverif-'):
    d = tempfile.mkdtemp(prefix=prefix)
    _scratch.append(d)
    return d


@atexit.register
def _cleanup():
    for d in _scratch:
        shutil.rmtree(d, ignore_errors=True)


class MachineryError(Exception):
    pass


class TLCResult:
    def __init__(self, rc, out, wall):
        self.rc, self.out, self.wall = rc, out, wall
        m = re.findall(r'(\d+) states generated, (\d+) distinct states found', out)
        self.generated = int(m[-1][0]) if m else 0
        self.distinct = int(m[-1][1]) if m else 0
        m = re.search(r'The depth of the complete state graph search is (\d+)', out)
        self.depth = int(m.group(1)) if m else None
        self.violated = re.findall(r'Invariant (\S+) is violated', out)
        self.ok = rc == 0
        self.complete = True
        if not self.distinct:
            # stopped by the time budget: the last progress line says how much was explored
            pr = re.findall(r'Progress\(\d+\) at [^:]*:[^:]*:[^:]*: ([\d,]+) states generated.*?, ([\d,]+) distinct states found', out)
            if pr:
                self.generated = int(pr[-1][0].replace(',', ''))
                self.distinct = int(pr[-1][1].replace(',', ''))

    def printed(self, tag):
        """All values printed with PrintT(<<"tag", ...>>); returns the raw text after the tag."""
        res = []
        # TLC wraps long tuples over several lines: << "tag",\n   "..." >>
        for m in re.finditer(r'^<<\s*"%s",\s*(.*?)\s*>>$' % re.escape(tag), self.out, re.M | re.S):
            res.append(m.group(1))
        return res

    def printed_json(self, tag):
        """PrintT(<<"tag", ToJson(x)>>) -> python objects."""
        res = []
        for raw in self.printed(tag):
            if raw.startswith('"') and raw.endswith('"'):
                res.append(json.loads(json.loads(raw)))
        return res

    def coverage_zero_actions(self):
        """Actions reported by -coverage with 0 distinct states (vacuity guard)."""
        zero = []
        for m in re.finditer(r'^<(\w+) line [^>]*>: (\d+):(\d+)$', self.out, re.M):
            if m.group(3) == '0' and m.group(2) == '0':
                zero.append(m.group(1))
        return zero


def tla_workspace(*modules_dirs):
    """A scratch directory holding copies of all spec modules (TLC resolves EXTENDS next to the root)."""
    d = scratch_dir()
    for f in os.listdir(SPECS):
        if f.endswith(('.tla', '.cfg')):
            shutil.copy(os.path.join(SPECS, f), os.path.join(d, f))
    return d


def run_tlc(ws, module, cfg=None, *, workers=None, simulate=None, depth=None, seed=None,
            env=None, timeout=1800, extra=(), xss='1g', heap='6g', coverage=False, cont=False,
            allow_violation=False, budget=None):
    """budget (seconds): an exhaustive run that is allowed not to finish -- when the budget is used up TLC is stopped and the
    result (complete=False) covers the states explored so far (no violation among them)."""
    cfg = cfg or (module + '.cfg')
    if budget:
        timeout = budget
    cmd = ['java', '-Xss' + xss, '-XX:+UseParallelGC', '-Djava.io.tmpdir=' + ws]      # TLC/SANY scratch lands in the workspace (removed at exit)
    if workers and str(workers).isdigit() and int(workers) <= 4:
        cmd.append('-XX:ParallelGCThreads=2')
    if heap:
        cmd.append('-Xmx' + heap)
    cmd += ['-cp', TLA_CP, 'tlc2.TLC', '-noGenerateSpecTE',
            '-metadir', os.path.join(ws, 'meta-%d-%d' % (os.getpid(), int(time.time() * 1000) % 10**9)),
            '-workers', str(workers or 'auto'), '-config', cfg]
    if simulate:
        cmd += ['-simulate', simulate]
    if depth:
        cmd += ['-depth', str(depth)]
    if seed is not None:
        cmd += ['-seed', str(seed)]
    if coverage:
        cmd += ['-coverage', '1']
    if cont:
        cmd += ['-continue']
    cmd += list(extra)
    cmd.append(module + '.tla')
    e = dict(os.environ)
    e.pop('JAVA_TOOL_OPTIONS', None)
    if env:
        e.update(env)
    t0 = time.time()
    try:
        p = subprocess.run(cmd, cwd=ws, env=e, stdout=subprocess.PIPE, stderr=subprocess.STDOUT,
                           timeout=timeout, text=True, errors='replace')
    except subprocess.TimeoutExpired as ex:
        if simulate or budget:   # simulation under an outer timeout is a normal way to stop; so is a budgeted exhaustive run
            out = ex.stdout or ''
            if isinstance(out, bytes):
                out = out.decode('utf8', 'replace')
            r = TLCResult(0, out, time.time() - t0)
            if r.violated:
                r.ok = False
                r.rc = 12
            r.complete = False
            return r
        raise MachineryError('TLC timeout after %ss: %s' % (timeout, ' '.join(cmd)))
    r = TLCResult(p.returncode, p.stdout, time.time() - t0)
    if p.returncode != 0 and not (allow_violation and p.returncode in (12, 13)):
        tail = '\n'.join(p.stdout.splitlines()[-40:])
        raise MachineryError('TLC failed rc=%s module=%s cfg=%s\n%s' % (p.returncode, module, cfg, tail))
    return r


# ---------------------------------------------------------------------------
# Known findings

def load_known():
    p = os.path.join(VERIF, 'KNOWN_FINDINGS.json')
    if not os.path.exists(p):
        return {'findings': [], 'fixed': []}
    return json.load(open(p))


def _match(pred, case):
    """Declarative predicate over a concretised failing case (a dict).

    {"key": value}                 -> case[key] == value
    {"key": {"contains": x}}       -> x in case[key]
    {"key": {"gt": n}} / {"lt": n} -> numeric comparison
    {"key": {"in": [..]}}          -> membership
    All entries must hold.
    """
    for k, v in pred.items():
        if k not in case:
            return False
        c = case[k]
        if isinstance(v, dict):
            for op, arg in v.items():
                if op == 'contains':
                    if arg not in c:
                        return False
                elif op == 'gt':
                    if not c > arg:
                        return False
                elif op == 'lt':
                    if not c < arg:
                        return False
                elif op == 'in':
                    if c not in arg:
                        return False
                else:
                    raise MachineryError('unknown predicate op %r' % op)
        elif c != v:
            return False
    return True


# ---------------------------------------------------------------------------
# A running check

class Check:
    def __init__(self, pid, tier, seed, level='model_checking'):
        self.pid, self.tier, self.seed, self.level = pid, tier, seed, level
        self.t0 = time.time()
        self.states = 0
        self.transitions = 0
        self.traces_validated = 0
        self.evaluations = 0
        self.nontrivial = set()
        self.samples = []
        self.violations = []      # (what, case, replay_path)
        self.known_hit = {}       # finding id -> what
        self.drifts = []
        self.notes = []
        self.tlc_cmds = []
        self.exhaustive = False
        self.known = [f for f in load_known().get('findings', []) if f.get('property') == pid]
        self.extra = {}
        os.makedirs(OUT, exist_ok=True)
        os.makedirs(EVIDENCE, exist_ok=True)

    # -- accounting
    def add_tlc(self, r, what):
        self.states += r.distinct
        self.transitions += r.generated
        self.tlc_cmds.append('%s: %d distinct / %d generated, %.1fs' % (what, r.distinct, r.generated, r.wall))

    def count(self, n=1, nontrivial_key=None):
        self.evaluations += n
        if nontrivial_key is not None and len(self.nontrivial) < 2_000_000:
            self.nontrivial.add(nontrivial_key)

    def sample(self, s, limit=6):
        if len(self.samples) < limit:
            self.samples.append(s)

    def note(self, s):
        self.notes.append(s)
        print('NOTE', s, flush=True)

    # -- verdicts
    def violation(self, what, case):
        """A property-level failure on the real code. `case` is a JSON-able dict that the
        check's replay() can re-execute."""
        for f in self.known:
            if _match(f['match'], case):
                self.known_hit.setdefault(f['id'], f['what'])
                return False
        if len(self.violations) < 25:
            n = len(self.violations)
            path = os.path.join(OUT, '%s-%s-%d.json' % (self.pid, self.tier, n))
            with open(path, 'w') as fh:
                json.dump({'property': self.pid, 'what': what, 'case': case}, fh, indent=1, default=repr)
            self.violations.append((what, case, path))
            print('VIOLATION property=%s replay=%s' % (self.pid, path), flush=True)
            print('  what: %s' % what, flush=True)
        else:
            self.violations.append((what, None, None))
        return True

    def drift(self, msg):
        if len(self.drifts) < 20:
            print('DRIFT property=%s %s' % (self.pid, msg), flush=True)
        self.drifts.append(msg)

    def finish(self):
        wall = time.time() - self.t0
        for fid, what in sorted(self.known_hit.items()):
            print('KNOWN-FINDING: property=%s %s' % (self.pid, what), flush=True)
        cov = {
            'states': self.states,
            'transitions': self.transitions,
            'traces_validated_against_impl': self.traces_validated,
            'evaluations': self.evaluations,
            'distinct_nontrivial': len(self.nontrivial),
            'samples': self.samples or ['(none)'],
            'exhaustive': self.exhaustive,
            'checker_cmd': 'java -cp tla2tools.jar tlc2.TLC (see tlc_runs)',
            'tlc_runs': self.tlc_cmds,
            'trusted_base': ['TLC 1.8.0 / CommunityModules', 'harness concretisation + projection functions',
                             'CPython stdlib'],
            'mechanism_conformant': not self.drifts,
            'drift': self.drifts[:10],
            'known_findings_matched': sorted(self.known_hit),
            'notes': self.notes,
        }
        cov.update(self.extra)
        ev = {
            'property_id': self.pid, 'tier': self.tier, 'seed': self.seed, 'level': self.level,
            'coverage': cov,
            'assumptions': self.extra.get('assumptions', []),
            'wall_s': round(wall, 2),
            'violations': len(self.violations),
        }
        cov.pop('assumptions', None)
        if not os.environ.get('VERIF_NO_EVIDENCE'):
            with open(os.path.join(EVIDENCE, self.pid + '.json'), 'w') as fh:
                json.dump(ev, fh, indent=1, default=repr)
        print('%s %s: states=%d transitions=%d traces=%d evaluations=%d nontrivial=%d violations=%d known=%d drift=%d wall=%.1fs'
              % (self.pid, self.tier, self.states, self.transitions, self.traces_validated, self.evaluations,
                 len(self.nontrivial), len(self.violations), len(self.known_hit), len(self.drifts), wall), flush=True)
        return 1 if self.violations else 0


def run_apalache(ws, module, args, timeout=900):
    """apalache-mc check ... ; returns (ok, tail of output). Symbolic (SMT) check over unbounded integers."""
    cmd = ['apalache-mc', 'check'] + list(args) + ['--out-dir=' + os.path.join(ws, 'apalache-out'), module + '.tla']
    t0 = time.time()
    try:
        p = subprocess.run(cmd, cwd=ws, stdout=subprocess.PIPE, stderr=subprocess.STDOUT, timeout=timeout, text=True, errors='replace')
    except (subprocess.TimeoutExpired, FileNotFoundError) as e:
        raise MachineryError('apalache failed to run: %r' % (e,))
    ok = p.returncode == 0 and 'The outcome is: NoError' in p.stdout
    return ok, p.stdout[-1500:], time.time() - t0


def parallel(jobs, max_workers=6):
    """Run independent callables concurrently (each typically one TLC process); returns results in order.
    A MachineryError in any job is re-raised."""
    from concurrent.futures import ThreadPoolExecutor
    with ThreadPoolExecutor(max_workers=max_workers) as ex:
        futs = [ex.submit(j) for j in jobs]
        return [f.result() for f in futs]


def validate_records(chk, module, records, what, nchunks=8, cfg=None, strip=None, extra_files=None, timeout=3000):
    """Batch trace validation of independent records: splits into chunks validated by parallel TLC processes.
    Returns (set of 0-based indices the mechanism model does not explain, {0-based index: set of failed clauses})."""
    import json as _json
    if not records:
        return set(), {}
    nchunks = max(1, min(nchunks, len(records) // 20 or 1))
    chunks = [list(range(i, len(records), nchunks)) for i in range(nchunks)]

    def one(idxs):
        ws = tla_workspace()
        for name, text in (extra_files or {}).items():
            with open(os.path.join(ws, name), 'w') as fh:
                fh.write(text)
        path = os.path.join(ws, 'traces.json')
        with open(path, 'w') as fh:
            _json.dump([(strip(records[i]) if strip else records[i]) for i in idxs], fh)
        return idxs, run_tlc(ws, module, cfg or (module + '.cfg'), workers=1, env={'TRACE_FILE': path}, timeout=timeout)
    missing, fails = set(), {}
    for idxs, r in parallel([(lambda c=c: one(c)) for c in chunks], max_workers=8):
        chk.add_tlc(r, '%s %s (%d records)' % (module, what, len(idxs)))
        mm, ff = trace_report(r)
        for tid in mm:
            missing.add(idxs[tid - 1])
        for tid, cl in ff.items():
            fails.setdefault(idxs[tid - 1], set()).update(cl)
    chk.traces_validated += len(records) - len(missing | set(fails))
    return missing, fails


def trace_report(r):
    """Parse the POSTCONDITION report of a batch trace validation:
    (set of tids the mechanism model could not follow, {tid: set of failed property clauses})."""
    mm = r.printed_json('MECH_MISSING')
    pf = r.printed_json('PROP_FAILS')
    if not mm or not pf:
        raise MachineryError('trace validation produced no report:\n' + r.out[-2000:])
    missing = set(int(x) for x in mm[-1])
    fails = {}
    for tid, clause in pf[-1]:
        fails.setdefault(int(tid), set()).add(clause)
    return missing, fails


class Hang(BaseException):
    """The code under test did not return within the time limit.  (Not an Exception: a loop under test that catches
    Exception around its body must not be able to swallow the watchdog; the alarm also repeats until the limit is left.)"""


class time_limit:
    """Context manager: raises Hang in the main thread after `seconds` (SIGALRM; pure-Python loops are interruptible)."""

    def __init__(self, seconds):
        self.seconds = seconds

    def __enter__(self):
        import signal
        import threading
        self.active = threading.current_thread() is threading.main_thread()
        if self.active:
            def handler(signum, frame):
                raise Hang()
            self.old = signal.signal(signal.SIGALRM, handler)
            signal.setitimer(signal.ITIMER_REAL, self.seconds, 0.5)
        return self

    def __exit__(self, *exc):
        import signal
        if self.active:
            signal.setitimer(signal.ITIMER_REAL, 0)
            signal.signal(signal.SIGALRM, self.old)
        return False


def setup_repo_path():
    """Make `import ombott` resolve to REPO's working tree (fresh interpreter per check)."""
    if REPO not in sys.path:
        sys.path.insert(0, REPO)
    os.environ.setdefault('PYTHONHASHSEED', '0')
    import ombott  # noqa
    if not os.path.abspath(ombott.__file__).startswith(os.path.abspath(REPO)):
        raise MachineryError('ombott imported from %s, expected %s' % (ombott.__file__, REPO))


def tla_seq(b):
    """bytes/str -> list of ints for JSON traces."""
    if isinstance(b, str):
        return [ord(c) for c in b]
    return list(b)


def to_tla(v):
    """Python value -> TLA+ literal (for generated cfg/modules)."""
    if isinstance(v, bool):
        return 'TRUE' if v else 'FALSE'
    if isinstance(v, int):
        return str(v)
    if isinstance(v, str):
        return '"%s"' % v
    if isinstance(v, (list, tuple)):
        return '<<' + ', '.join(to_tla(x) for x in v) + '>>'
    if isinstance(v, (set, frozenset)):
        return '{' + ', '.join(to_tla(x) for x in sorted(v)) + '}'
    if isinstance(v, dict):
        return '[' + ', '.join('%s |-> %s' % (k, to_tla(x)) for k, x in v.items()) + ']'
    raise TypeError(v)
