---------------------------- MODULE RouterTrace -----------------------------
(* Validation of recorded edit/probe histories of the real RadiRouter.       *)
(* Each operation carries its arguments, its outcome, the projected state    *)
(* (radix tree, routes, named_routes, hooks) and a list of probe answers     *)
(* observed after it (RadiRouter.resolve with the verb chain of to_route).   *)
(* Mechanism level: the MC_Router actions must reproduce the projected state *)
(* (register 1).  Property level (register 2), from the record alone: a      *)
(* reference state (aabs, anamed, ahooks) is advanced by what the router     *)
(* reported (accepted / rejected) and every answer must equal the            *)
(* rule-by-rule reference; the listed routes/names/hooks must equal it too.  *)
EXTENDS MC_Router, Json, IOUtils, TLCExt
Traces == JsonDeserialize(IOEnv.TRACE_FILE)
VARIABLES tid, l, mech, aabs, anamed, ahooks
tvars == <<vars, tid, l, mech, aabs, anamed, ahooks>>
T == Traces[tid]
Set(seq) == {seq[i] : i \in 1..Len(seq)}
RR(r) == [id |-> r.id, pat |-> r.pat, filters |-> r.filters, names |-> r.names, meths |-> Set(r.meths), name |-> r.name]
\* JSON tree -> node record (children recursively; field order is irrelevant)
NamedFn(pairs) == [n \in {pairs[i][1] : i \in 1..Len(pairs)} |-> (CHOOSE i \in 1..Len(pairs) : pairs[i][1] = n) ]

ImplOp(o) ==
  CASE o.op = "add" -> Add(RR(o.r), o.ow)
    [] o.op = "remove_rule" -> RemoveRule(o.r.pat)
    [] o.op = "remove_obj" -> RemoveRule(o.pat)
    [] o.op = "remove_name" -> IF o.name \in Dom(named) THEN RemoveName(o.name) ELSE (UNCHANGED <<tree, routes, named, hooksIdx, abs>> /\ last' = "rejected:key")
    [] o.op = "remove_prefix" -> RemovePrefix(o.pre)
    [] o.op = "remove_method" -> IF o.pat \in Dom(routes) /\ o.meth \in Dom(routes[o.pat].meths) THEN RemoveMethod(o.pat, o.meth)
                                  ELSE (UNCHANGED <<tree, routes, named, hooksIdx, abs>> /\ last' = "ok")
    [] o.op = "add_hook" -> AddHook(RR(o.r))
    [] o.op = "remove_hook" -> RemoveHook(RR(o.r))

ANamesOf(pats) == {n \in Dom(anamed) : anamed[n] \in pats}
AbsOp(o) ==
  CASE o.op = "add" ->
         LET r == RR(o.r)
             inst == o.outcome \in {"ok", "rejected:name"}
             cur == IF r.pat \in Dom(aabs) THEN aabs[r.pat] ELSE [filters |-> r.filters, meths |-> <<>>]
             nm == [x \in Dom(cur.meths) \cup r.meths |-> IF x \in r.meths THEN [h |-> r.id, names |-> r.names] ELSE cur.meths[x]] IN
         /\ aabs' = IF inst THEN Upd(aabs, r.pat, [cur EXCEPT !.meths = nm]) ELSE aabs
         /\ anamed' = IF o.outcome = "ok" /\ r.name # NoName THEN Upd(anamed, r.name, r.pat) ELSE anamed
         /\ UNCHANGED ahooks
    [] o.op \in {"remove_rule", "remove_obj"} ->
         LET p == IF o.op = "remove_rule" THEN o.r.pat ELSE o.pat IN
         /\ aabs' = Drop(aabs, {p}) /\ anamed' = Drop(anamed, ANamesOf({p})) /\ UNCHANGED ahooks
    [] o.op = "remove_name" ->
         IF o.outcome = "ok" /\ o.name \in Dom(anamed)
         THEN LET p == anamed[o.name] IN aabs' = Drop(aabs, {p}) /\ anamed' = Drop(anamed, ANamesOf({p})) /\ UNCHANGED ahooks
         ELSE UNCHANGED <<aabs, anamed, ahooks>>
    [] o.op = "remove_prefix" ->
         LET gone == {p \in Dom(aabs) : StartsWith(p, o.pre)} IN
         aabs' = Drop(aabs, gone) /\ anamed' = Drop(anamed, ANamesOf(gone)) /\ UNCHANGED ahooks
    [] o.op = "remove_method" ->
         /\ aabs' = IF o.pat \in Dom(aabs) THEN [aabs EXCEPT ![o.pat].meths = Drop(@, {o.meth})] ELSE aabs
         /\ UNCHANGED <<anamed, ahooks>>
    [] o.op = "add_hook" -> ahooks' = (IF o.outcome = "ok" THEN ahooks \cup {o.r.pat} ELSE ahooks) /\ UNCHANGED <<aabs, anamed>>
    [] o.op = "remove_hook" -> ahooks' = ahooks \ {o.r.pat} /\ UNCHANGED <<aabs, anamed>>

\* canonical decimal text of an int as Python prints it
RECURSIVE StripZeros(_)
StripZeros(s) == IF Len(s) > 1 /\ Head(s) = ZERO THEN StripZeros(Tail(s)) ELSE s
CanonInt(s) == LET neg == s # <<>> /\ Head(s) = HY
                   d == StripZeros(IF neg THEN Tail(s) ELSE s) IN
               IF neg /\ d # <<ZERO>> THEN <<HY>> \o d ELSE d
\* an observed parameter [name, [kind, text]] against the reference [name, text] under the filter of that wildcard
ValOK(obs, ref, f) ==
  IF f = "int(None)" THEN obs[1] = "int" /\ obs[2] = CanonInt(ref)
  ELSE IF f = "float(None)" THEN obs[1] = "float"
  ELSE obs[1] = "str" /\ obs[2] = ref
\* filter of the j-th named parameter of the selected rule
\* the set of failed sub-clauses of one observed answer
AnswerFails(a) ==
  LET sel == AbsSelectIn(aabs, a.path)
      ref == AbsFromIn(aabs, ahooks, sel, a.verb) IN
  IF (a.k = "404") # (ref.k = "404") THEN {"Resolve404"}
  ELSE IF a.k = "404" THEN {}
  ELSE IF a.k # ref.k THEN {"Method"}
  ELSE IF a.k = "405" THEN (IF Set(a.allow) # ref.allow THEN {"Allow"} ELSE {})
  ELSE
    (IF a.route # sel.p THEN {"Route"} ELSE IF a.h # ref.h THEN {"Method"} ELSE {})
    \cup (IF a.hooks # ref.hooks THEN {"Hooks"} ELSE {})
    \cup (IF a.route = sel.p /\ a.h = ref.h /\ CheckNames THEN
            LET e == aabs[sel.p].meths[FirstIn(Chain405(a.verb), Dom(aabs[sel.p].meths))]
                fl == aabs[sel.p].filters IN
            IF {a.params[i][1] : i \in 1..Len(a.params)} # ref.names
               \/ \E i \in 1..Len(a.params) :
                    ~\E j \in 1..Len(e.names) : e.names[j] = a.params[i][1] /\ ValOK(a.params[i][2], sel.m.vals[j], fl[j])
            THEN {"Params"} ELSE {}
          ELSE {})
StateOK(o) ==
  /\ Set(o.st.routes) = Dom(aabs)
  /\ {<<o.st.named[i][1], o.st.named[i][2]>> : i \in 1..Len(o.st.named)} = {<<n, anamed[n]>> : n \in Dom(anamed)}
  /\ Set(o.st.hooks) = ahooks
  \* lookup by rule: every surviving route is found under each spelling it was registered with, nothing else is
  /\ Set(o.st.byrule) = Dom(aabs) /\ o.st.byrule_miss = <<>>
Outcomes == {"ok", "rejected:method", "rejected:name", "rejected:filter", "rejected:key"}
\* ---- C11, equality with the freshly built router extends to what it would DO with the next registration: a rule or hook is
\* refused for the type of one of its wildcards exactly when a SURVIVING rule or hook holds that wildcard position (same
\* pattern text up to and including the wildcard) with another type.  Nothing that was removed may still have a say.
\* k = number of operations applied so far (the reference state is the one after operation k).
TokCount(pat, i) == Cardinality({j \in 1..i : pat[j] = TOKEN})
Conflict(pat, fl, qpat, qfl) ==
  \E i \in 1..(IF Len(pat) < Len(qpat) THEN Len(pat) ELSE Len(qpat)) :
     /\ pat[i] = TOKEN /\ SubSeq(pat, 1, i) = SubSeq(qpat, 1, i)
     /\ fl[TokCount(pat, i)] # qfl[TokCount(qpat, i)]
\* the wildcard types a surviving hook rule holds are those of the installation that put it there: the first accepted
\* add_hook of that rule since it was last removed (later ones join the list without being looked at, see HadHook)
HookFiltersAt(k, hp) ==
  LET rm == {i \in 1..k : T.ops[i].op = "remove_hook" /\ T.ops[i].r.pat = hp}
      idx == {i \in 1..k : /\ T.ops[i].op = "add_hook" /\ T.ops[i].outcome = "ok" /\ T.ops[i].r.pat = hp
                           /\ \A j \in rm : j < i} IN
  T.ops[CHOOSE i \in idx : \A j \in idx : i <= j].r.filters
RefRefuses(r, k) ==
  \/ \E q \in Dom(aabs) : Conflict(r.pat, r.filters, q, aabs[q].filters)
  \/ \E hp \in ahooks : Conflict(r.pat, r.filters, hp, HookFiltersAt(k, hp))
\* a hook rule that already holds a hook takes the new one without looking at the wildcard types it is written with (the
\* fresh router does the same: the hook list is per rule)
HadHook(k, hp) == \E i \in 1..(k - 1) : /\ T.ops[i].op = "add_hook" /\ T.ops[i].outcome = "ok" /\ T.ops[i].r.pat = hp
                                        /\ \A j \in (i + 1)..(k - 1) : ~(T.ops[j].op = "remove_hook" /\ T.ops[j].r.pat = hp)
VerdictFails(o, k) ==
  IF o.op \in {"add", "add_hook"} /\ o.outcome \in Outcomes
  THEN LET ref == IF o.op = "add_hook" /\ HadHook(k, o.r.pat) THEN FALSE ELSE RefRefuses(o.r, k) IN
       (IF (o.outcome = "rejected:filter") # ref THEN {"Verdict"} ELSE {})
  ELSE {}
PropFailsAt(o) ==
  (IF o.outcome \notin Outcomes THEN {"Outcome"} ELSE {}) \cup
  UNION {AnswerFails(o.ans[i]) : i \in 1..Len(o.ans)}
  \cup (IF ~StateOK(o) THEN {"IndexAgree"} ELSE {})

TInit == /\ tid \in 1..Len(Traces) /\ l = 1 /\ mech = TRUE
         /\ Init /\ aabs = <<>> /\ anamed = <<>> /\ ahooks = {}
TStep == /\ l <= Len(T.ops)
         /\ LET o == T.ops[l] IN
            /\ ImplOp(o)
            /\ AbsOp(o)
            /\ mech' = (mech /\ tree' = o.st.tree /\ last' = o.outcome
                        /\ Dom(routes') = Set(o.st.routes) /\ hooksIdx' = Set(o.st.hooks))
         /\ l' = l + 1 /\ UNCHANGED tid
TSpec == TInit /\ [][TStep]_tvars
Bookkeeping ==
  /\ ((l = Len(T.ops) + 1 /\ mech) => TLCSet(1, TLCGet(1) \cup {tid}))
  /\ ((l > 1 /\ ~mech /\ ~(\E x \in TLCGet(3) : x[1] = tid)) => TLCSet(3, TLCGet(3) \cup {<<tid, l - 1>>}))
  /\ (l > 1 => LET f == PropFailsAt(T.ops[l - 1]) \cup VerdictFails(T.ops[l - 1], l - 1) IN (f # {} => TLCSet(2, TLCGet(2) \cup {<<tid, c, l - 1>> : c \in f})))
ASSUME TLCSet(1, {}) /\ TLCSet(2, {}) /\ TLCSet(3, {})
Report == /\ PrintT(<<"MECH_MISSING", ToJson((1..Len(Traces)) \ TLCGet(1))>>)
          /\ PrintT(<<"PROP_FAILS", ToJson(TLCGet(2))>>)
          /\ PrintT(<<"MECH_FIRST", ToJson(TLCGet(3))>>)
NoRules == {}
NoAlpha == {}
=============================================================================
