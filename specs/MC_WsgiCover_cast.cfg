SPECIFICATION Spec
CONSTANTS Scenario = "cast"
INVARIANT Emit
CHECK_DEADLOCK FALSE
