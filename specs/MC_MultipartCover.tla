-------------------------- MODULE MC_MultipartCover --------------------------
(* Witness behaviours of MC_Multipart for replay on the real MultipartMarkup: *)
(* exhaustive mode with VIEW = one witness per distinct final state;          *)
(* simulation mode = random divisions.  Each step logs the full carry state.  *)
EXTENDS MC_Multipart, Json
VARIABLE log
CInit == Init /\ log = <<>>
CNext == Next /\ log' = Append(log, [k |-> fed' - fed, mm |-> mm'])
CSpec == CInit /\ [][CNext]_<<vars, log>>
CView == vars
Emit == fed < Len(body) \/ body = <<>> \/ PrintT(<<"W", ToJson([boundary |-> Boundary, body |-> body, log |-> log])>>)
=============================================================================
