SPECIFICATION CSpec
CONSTANTS
 ShortReads = TRUE
 Scenario = "cl"
 MaxData = 7
 MaxCL = 8
 Bufs = {1,2,3,8}
 MaxBodies <- MB_none
INVARIANT Emit
VIEW CView
CHECK_DEADLOCK FALSE
