-------------------------------- MODULE Static ------------------------------
(* ombott/static_stream.py: static_file, get_first_range, _file_iter_range   *)
(* (C16, C17).  Header text is Seq(Nat); paths are sequences of segments.    *)
EXTENDS Text, TLC

\* ---- Python int(str) for decimal text: blanks, sign, digits with single underscores
RECURSIVE DecDigits(_, _, _)
DecDigits(s, acc, prevUS) ==
  IF s = <<>> THEN (IF prevUS THEN -1 ELSE acc)
  ELSE IF Head(s) = US THEN (IF prevUS THEN -1 ELSE DecDigits(Tail(s), acc, TRUE))
  ELSE IF ~IsDigit(Head(s)) THEN -1
  ELSE DecDigits(Tail(s), acc * 10 + (Head(s) - 48), FALSE)
PyInt(raw) ==
  LET s0 == Strip(raw)
      neg == s0 # <<>> /\ Head(s0) = HY
      s1 == IF s0 # <<>> /\ Head(s0) \in {HY, PLUS} THEN Tail(s0) ELSE s0
      v == IF s1 # <<>> /\ Head(s1) # US THEN DecDigits(s1, 0, FALSE) ELSE -1
  IN IF v < 0 THEN [ok |-> FALSE, v |-> 0] ELSE [ok |-> TRUE, v |-> IF neg THEN 0 - v ELSE v]

\* str.split(sep) pieces
RECURSIVE SplitAll(_, _)
SplitAll(s, c) == LET i == IndexOf(s, c) IN IF i < 0 THEN <<s>> ELSE <<Slice(s, 0, i)>> \o SplitAll(From(s, i + 1), c)
BYTESEQ == <<98, 121, 116, 101, 115, 61>>     \* "bytes="

\* ---- get_first_range(header, maxlen): [ok, start, end) end exclusive
GetFirstRange(header, maxlen) ==
  LET p == Find(header, BYTESEQ) IN
  IF p < 0 THEN [ok |-> FALSE]
  ELSE LET rs == From(header, p + 6)
           first == Strip(SplitAll(rs, COMMA)[1])     \* .strip(): white space before the list's comma (fix d46004c)
           parts == SplitAll(first, HY) IN
    IF Len(parts) # 2 THEN [ok |-> FALSE]
    ELSE LET st == parts[1]  en == parts[2] IN
      IF st = <<>> THEN          \* bytes=-n : the last n bytes
         LET e == PyInt(en) IN
         IF ~e.ok THEN [ok |-> FALSE]
         ELSE LET a == Max2(0, maxlen - e.v) IN IF 0 <= a /\ a < maxlen THEN [ok |-> TRUE, start |-> a, end |-> maxlen] ELSE [ok |-> FALSE]
      ELSE IF en = <<>> THEN     \* bytes=n-
         LET s == PyInt(st) IN
         IF ~s.ok THEN [ok |-> FALSE]
         ELSE IF 0 <= s.v /\ s.v < maxlen THEN [ok |-> TRUE, start |-> s.v, end |-> maxlen] ELSE [ok |-> FALSE]
      ELSE LET s == PyInt(st)  e == PyInt(en) IN
         IF ~s.ok \/ ~e.ok THEN [ok |-> FALSE]
         ELSE LET b == Min2(e.v + 1, maxlen) IN
              IF 0 <= s.v /\ s.v < b /\ b <= maxlen THEN [ok |-> TRUE, start |-> s.v, end |-> b] ELSE [ok |-> FALSE]

\* ---- reference: RFC 7233 first byte-range-spec, for headers in the grammar  bytes=spec(,spec)*
RECURSIVE AllDigits(_)
AllDigits(s) == s # <<>> /\ \A i \in 1..Len(s) : IsDigit(s[i])
RECURSIVE DecVal(_, _)
DecVal(s, acc) == IF s = <<>> THEN acc ELSE DecVal(Tail(s), acc * 10 + (Head(s) - 48))
\* [g |-> in grammar, sat |-> satisfiable, first, last (inclusive)]
\* the list rule of RFC 7230 section 7 lets optional white space (SP / HTAB) stand between an element and the comma after it
RECURSIVE RStripOws(_)
RStripOws(s) == IF s # <<>> /\ s[Len(s)] \in {32, 9} THEN RStripOws(SubSeq(s, 1, Len(s) - 1)) ELSE s
RfcRange(header, L) ==
  IF ~StartsWith(header, BYTESEQ) THEN [g |-> FALSE]
  ELSE LET els == SplitAll(From(header, 6), COMMA)
           first == IF Len(els) > 1 THEN RStripOws(els[1]) ELSE els[1]
           i == IndexOf(first, HY) IN
    IF i < 0 THEN [g |-> FALSE]
    ELSE LET a == Slice(first, 0, i)  b == From(first, i + 1) IN
      IF a = <<>> /\ AllDigits(b) THEN
         LET n == DecVal(b, 0) IN
         IF n = 0 \/ L = 0 THEN [g |-> TRUE, sat |-> FALSE] ELSE [g |-> TRUE, sat |-> TRUE, first |-> Max2(0, L - n), last |-> L - 1]
      ELSE IF AllDigits(a) /\ b = <<>> THEN
         LET s == DecVal(a, 0) IN IF s >= L THEN [g |-> TRUE, sat |-> FALSE] ELSE [g |-> TRUE, sat |-> TRUE, first |-> s, last |-> L - 1]
      ELSE IF AllDigits(a) /\ AllDigits(b) /\ DecVal(a, 0) <= DecVal(b, 0) THEN
         LET s == DecVal(a, 0)  e == DecVal(b, 0) IN
         IF s >= L THEN [g |-> TRUE, sat |-> FALSE] ELSE [g |-> TRUE, sat |-> TRUE, first |-> s, last |-> Min2(e, L - 1)]
      ELSE [g |-> FALSE]

\* ---- the response static_file builds for an existing readable file of length L
\* hasRange/header: Range header; ims: "absent" | "older" | "equal" | "newer" | "junk"; method GET | HEAD
\* -> [status, cr (<<>> or <<first, last, total>>), cl, off, len]  (off/len: the slice of the file that is streamed)
Respond(L, hasRange, header, ims, method) ==
  IF ims \in {"equal", "newer"} THEN [status |-> 304, cr |-> <<>>, cl |-> L, off |-> 0, len |-> 0]
  ELSE IF hasRange /\ header # <<>> THEN
     LET r == GetFirstRange(header, L) IN
     IF ~r.ok THEN [status |-> 416, cr |-> <<>>, cl |-> -1, off |-> 0, len |-> 0]
     ELSE [status |-> 206, cr |-> <<r.start, r.end - 1, L>>, cl |-> r.end - r.start, off |-> r.start,
           len |-> IF method = "HEAD" THEN 0 ELSE r.end - r.start]
  ELSE [status |-> 200, cr |-> <<>>, cl |-> L, off |-> 0, len |-> IF method = "HEAD" THEN 0 ELSE L]

\* ---- _file_iter_range(fp, offset, bytes_len, maxread): chunk sizes
RECURSIVE IterRange(_, _, _, _)
IterRange(avail, bytesLen, maxread, first) ==
  \* avail = bytes left in the file from the current position
  LET part == Min2(Min2(bytesLen, maxread), avail) IN
  IF bytesLen > 0 /\ part > 0 THEN <<part>> \o IterRange(avail - part, bytesLen - part, maxread, FALSE) ELSE <<>>

-----------------------------------------------------------------------------
(* C16: posixpath.normpath / abspath / join on segment sequences             *)
\* a path is a sequence of segments; "" and "." are dropped, ".." pops (never above the root)
RECURSIVE Norm(_, _)
Norm(segs, acc) ==
  IF segs = <<>> THEN acc
  ELSE LET s == Head(segs) IN
    IF s = "" \/ s = "." THEN Norm(Tail(segs), acc)
    ELSE IF s = ".." THEN Norm(Tail(segs), IF acc = <<>> THEN acc ELSE SubSeq(acc, 1, Len(acc) - 1))
    ELSE Norm(Tail(segs), Append(acc, s))
\* filename.strip('/\\') at segment level: leading/trailing empty segments vanish (they are dropped by Norm anyway)
IsPrefixSeq(p, q) == Len(p) <= Len(q) /\ SubSeq(q, 1, Len(p)) = p
\* static_file's decision: root given as absolute segment list (already joined with cwd), name as segments
Locate(rootSegs, nameSegs) ==
  LET root == Norm(rootSegs, <<>>)
      full == Norm(root \o nameSegs, <<>>) IN
  [root |-> root, full |-> full, inside |-> IsPrefixSeq(root, full) /\ Len(full) > Len(root)]
=============================================================================
