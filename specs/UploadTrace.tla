---------------------------- MODULE UploadTrace -----------------------------
(* Steps recorded from the real FileUpload.save in a scratch directory:        *)
(* [pre, act, post, stray] with pre/post the projected state                   *)
(* [data, fs, pos, sink, res, pend] and stray = something appeared that the     *)
(* projection cannot name (a write outside the two places of a save).          *)
(* register 1: steps the model explains (post = Apply(pre, act));              *)
(* register 2: <<tid, clause>> for each caller-level clause the real step      *)
(* breaks (judged on pre/post only).                                           *)
EXTENDS Upload, Json, IOUtils, TLCExt, TLC
Traces == JsonDeserialize(IOEnv.TRACE_FILE)
NoData == <<>>
VARIABLE tid
T == Traces[tid]
MechOK(t) == ~t.stray /\ (IsEnv(t.act) => EnvOK(t.pre, t.act)) /\ Apply(t.pre, t.act) = t.post
PropFails(t) == Clauses(t.pre, t.act, t.post) \cup (IF t.stray /\ IsSave(t.act) THEN {"OneTarget"} ELSE {})
Init == tid \in 1..Len(Traces)
Next == UNCHANGED tid
Spec == Init /\ [][Next]_tid
Bookkeeping ==
  /\ (MechOK(T) => TLCSet(1, TLCGet(1) \cup {tid}))
  /\ LET f == PropFails(T) IN (f # {} => TLCSet(2, TLCGet(2) \cup {<<tid, c>> : c \in f}))
ASSUME TLCSet(1, {}) /\ TLCSet(2, {})
Report == /\ PrintT(<<"MECH_MISSING", ToJson((1..Len(Traces)) \ TLCGet(1))>>)
          /\ PrintT(<<"PROP_FAILS", ToJson(TLCGet(2))>>)
=============================================================================
