SPECIFICATION TSpec
CONSTANTS ShortReads = TRUE
CONSTRAINT Bookkeeping
POSTCONDITION Report
CHECK_DEADLOCK FALSE
