SPECIFICATION Spec
CONSTANTS
 ShortReads = TRUE
 Scenario = "legal"
 MaxData = 0
 MaxCL = 0
 Bufs = {6,8}
 MaxBodies <- MB_none
INVARIANT LegalAccepted
INVARIANT PrefixVerdict
INVARIANT AnyInput
INVARIANT Spooling
PROPERTY Progress
CHECK_DEADLOCK FALSE
