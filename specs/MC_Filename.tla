----------------------------- MODULE MC_Filename ----------------------------
EXTENDS Filename
Alpha == {97, 65, 49, 46, 45, 95, 32, 47, 92, 233, 9, 58, 160, 65295, 223, 189}
CONSTANT MaxLen
VARIABLE x
Init == x \in SeqsUpTo(Alpha, MaxLen)
Next == UNCHANGED x
Spec == Init /\ [][Next]_x
AlwaysSafe == Safe(Sanitise(x))
AlwaysIdempotent == Idempotent(x)
=============================================================================
