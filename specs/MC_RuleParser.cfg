SPECIFICATION Spec
INVARIANT FlavourEquiv
CHECK_DEADLOCK FALSE
