SPECIFICATION Spec
CONSTANTS
 MaxLen = 4
INVARIANT W_mark
CHECK_DEADLOCK FALSE
