SPECIFICATION Spec
CONSTANTS
 ShortReads = TRUE
 Scenario = "cl"
 MaxData = 6
 MaxCL = 7
 Bufs = {1,2,3}
 MaxBodies <- MB_small
INVARIANT ClExact
INVARIANT ClNoOverRead
INVARIANT SizeLimit
INVARIANT Spooling
INVARIANT ClLimitVerdict
INVARIANT ClPrefix
PROPERTY NumRefines
CHECK_DEADLOCK FALSE
