------------------------------- MODULE Upload -------------------------------
(* Beyond the listed properties: FileUpload.save (request_pkg/helpers.py),     *)
(* the step that moves an upload onto the server's disk.                       *)
(*                                                                             *)
(*   save(destination, overwrite=False, chunk_size):                           *)
(*     str destination: a directory gets the sanitised file name appended;      *)
(*       an existing target raises IOError unless overwrite; the target is       *)
(*       opened 'wb' and the REST of the upload (from its cursor) is copied,     *)
(*       the cursor is put back where it was.                                   *)
(*     file-like destination: the rest of the upload is written to it.          *)
(*                                                                             *)
(* The file system is a small tree: NTop top-level names, each none / file /   *)
(* directory, and under each directory one interesting child: the name the     *)
(* upload would get there (none / file / directory).  Place 0 is a path whose  *)
(* parent directory does not exist.  The code takes TWO looks at the tree       *)
(* (isdir + exists, then open); the spec has both grains: Save is the          *)
(* sequential meaning, SaveCheck ; SaveOpen the two critical sections with the *)
(* environment (another process of the same site) free to act in between.      *)
EXTENDS Naturals, Sequences, FiniteSets
CONSTANTS NTop,        \* number of top-level names
          Data         \* the bytes of the upload, a sequence
Top == 1..NTop
Places == 1..(2 * NTop)
Child(i) == i + NTop
Parent(t) == t - NTop
None == [k |-> "none", d |-> <<>>]
Dir == [k |-> "dir", d |-> <<>>]
File(d) == [k |-> "file", d |-> d]
Rest(s, p) == SubSeq(s.data, p + 1, Len(s.data))
Min(a, b) == IF a < b THEN a ELSE b
NoPend == [on |-> FALSE, t |-> 0, ch |-> 0, ow |-> FALSE]

\* a state is [data, fs, pos, sink, res, pend]; data (the upload's bytes) never changes
Init0 == [data |-> Data, fs |-> [p \in Places |-> None], pos |-> 0, sink |-> <<>>, res |-> "none", pend |-> NoPend]
WellFormed(s) == \A i \in Top : s.fs[Child(i)].k # "none" => s.fs[i].k = "dir"

\* where save(<top name i>) will write: the upload's own name inside a directory, else the name itself
Target(s, i) == IF i = 0 THEN 0 ELSE IF s.fs[i].k = "dir" THEN Child(i) ELSE i

\* first look: os.path.isdir, then (unless overwrite) os.path.exists
SaveCheck(s, i, ow, ch) ==
  LET t == Target(s, i) IN
  IF ~ow /\ t # 0 /\ s.fs[t].k # "none" THEN [s EXCEPT !.res = "exists"]
  ELSE [s EXCEPT !.pend = [on |-> TRUE, t |-> t, ch |-> ch, ow |-> ow], !.res = "pending"]
\* second look: open(target, 'wb'), copy in chunks of ch (a chunk size of 0 reads nothing: named deviation), cursor back
CanOpen(s, t) == /\ t # 0
                 /\ s.fs[t].k # "dir"
                 /\ (t > NTop => s.fs[Parent(t)].k = "dir")
                 /\ (t <= NTop => TRUE)
SaveOpen(s) ==
  LET t == s.pend.t IN
  IF ~CanOpen(s, t) THEN [s EXCEPT !.pend = NoPend, !.res = "oserror"]
  ELSE [s EXCEPT !.fs[t] = File(IF s.pend.ch = 0 THEN <<>> ELSE Rest(s, s.pos)), !.pend = NoPend, !.res = "ok"]
\* the sequential meaning
Save(s, i, ow, ch) == LET c == SaveCheck(s, i, ow, ch) IN IF c.res = "pending" THEN SaveOpen(c) ELSE c
\* file-like destination
SaveTo(s, ch) == [s EXCEPT !.sink = @ \o (IF ch = 0 THEN <<>> ELSE Rest(s, s.pos)), !.res = "ok"]
\* the handler reads from / repositions the upload
Read(s, n) == [s EXCEPT !.pos = Min(@ + n, Len(s.data)), !.res = "none"]
Seek(s, k) == [s EXCEPT !.pos = k, !.res = "none"]

\* the environment: other code creating and removing things
EnvOK(s, e) ==
  CASE e.op = "mkfile" -> e.i \in Top /\ s.fs[e.i].k = "none"
    [] e.op = "mkdir" -> e.i \in Top /\ s.fs[e.i].k = "none"
    [] e.op = "rm" -> e.i \in Top /\ s.fs[e.i].k # "none"
    [] e.op = "mkchild" -> e.i \in Top /\ s.fs[e.i].k = "dir" /\ s.fs[Child(e.i)].k = "none"
    [] e.op = "mkchilddir" -> e.i \in Top /\ s.fs[e.i].k = "dir" /\ s.fs[Child(e.i)].k = "none"
    [] e.op = "rmchild" -> e.i \in Top /\ s.fs[Child(e.i)].k # "none"
    [] OTHER -> FALSE
Env(s, e) ==
  CASE e.op = "mkfile" -> [s EXCEPT !.fs[e.i] = File(e.d), !.res = "none"]
    [] e.op = "mkdir" -> [s EXCEPT !.fs[e.i] = Dir, !.res = "none"]
    [] e.op = "rm" -> [s EXCEPT !.fs[e.i] = None, !.fs[Child(e.i)] = None, !.res = "none"]
    [] e.op = "mkchild" -> [s EXCEPT !.fs[Child(e.i)] = File(e.d), !.res = "none"]
    [] e.op = "mkchilddir" -> [s EXCEPT !.fs[Child(e.i)] = Dir, !.res = "none"]
    [] e.op = "rmchild" -> [s EXCEPT !.fs[Child(e.i)] = None, !.res = "none"]
IsEnv(a) == a.op \in {"mkfile", "mkdir", "rm", "mkchild", "mkchilddir", "rmchild"}
IsSave(a) == a.op \in {"save", "savecheck", "saveopen", "saveto"}

\* one step of any grain: the state after action a in state s
Apply(s, a) ==
  CASE a.op = "save" -> Save(s, a.i, a.ow, a.ch)
    [] a.op = "savecheck" -> SaveCheck(s, a.i, a.ow, a.ch)
    [] a.op = "saveopen" -> SaveOpen(s)
    [] a.op = "saveto" -> SaveTo(s, a.ch)
    [] a.op = "read" -> Read(s, a.n)
    [] a.op = "seek" -> Seek(s, a.k)
    [] OTHER -> Env(s, a)

(* What a caller relies on, as predicates of one step (s, a, s2): they do not  *)
(* mention how save works, so they can judge the real code's steps too.        *)
\* the overwrite flag of the save a step belongs to
OwOf(s, a) == IF a.op = "saveopen" THEN s.pend.ow ELSE IF a.op \in {"save", "savecheck"} THEN a.ow ELSE FALSE
\* an existing file is never replaced by a save that did not ask for it
NoClobber(s, a, s2) == IsSave(a) /\ ~OwOf(s, a) => \A p \in Places : s.fs[p].k = "file" => s2.fs[p] = s.fs[p]
\* a save leaves the upload's cursor where it was: saving twice gives the same file
CursorKept(s, a, s2) == IsSave(a) => s2.pos = s.pos
\* a save touches at most one place, and nothing when it fails
OneTarget(s, a, s2) == IsSave(a) => Cardinality({p \in Places : s2.fs[p] # s.fs[p]}) <= (IF s2.res = "ok" THEN 1 ELSE 0)
\* what a successful save leaves is a file holding the rest of the upload (all of it when nothing was read)
SavedIsRest(s, a, s2) ==
  a.op \in {"save", "saveopen"} /\ s2.res = "ok" /\ (IF a.op = "save" THEN a.ch ELSE s.pend.ch) # 0
     => \E p \in Places : s2.fs[p] = File(Rest(s, s.pos)) /\ (s2.fs[p] = s.fs[p] \/ \A q \in Places \ {p} : s2.fs[q] = s.fs[q])
\* a directory stays a directory; nothing is ever written outside the named place or its upload-named child
DirsStay(s, a, s2) == IsSave(a) => \A p \in Places : s.fs[p].k = "dir" => s2.fs[p].k = "dir"
Clauses(s, a, s2) ==
  (IF ~NoClobber(s, a, s2) THEN {"NoClobber"} ELSE {}) \cup (IF ~CursorKept(s, a, s2) THEN {"CursorKept"} ELSE {}) \cup
  (IF ~OneTarget(s, a, s2) THEN {"OneTarget"} ELSE {}) \cup (IF ~SavedIsRest(s, a, s2) THEN {"SavedIsRest"} ELSE {}) \cup
  (IF ~DirsStay(s, a, s2) THEN {"DirsStay"} ELSE {})
=============================================================================
