--------------------------- MODULE MC_EnvCacheSim ---------------------------
(* Random behaviours of EnvCache for replay on a real Request: the history of *)
(* calls with the snapshot the model predicts for every read.                 *)
EXTENDS MC_EnvCache, Json
VARIABLE hist
SInit == Init /\ hist = <<>>
SNext == /\ Next
         /\ hist' = Append(hist, IF last'[1] = "set" THEN [op |-> "set", k |-> last'[2], v |-> last'[3]]
                                 ELSE [op |-> "read", p |-> last'[2], snap |-> last'[3]])
SSpec == SInit /\ [][SNext]_<<vars, hist>>
Emit == Len(hist) < 12 \/ PrintT(<<"W", ToJson(hist)>>)
Bound == Len(hist) <= 12
=============================================================================
