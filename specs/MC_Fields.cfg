SPECIFICATION Spec
CONSTANTS
 Boundary <- BoundaryB
 NameLen = 2
 ValLen = 2
INVARIANT RoundTripInv
CHECK_DEADLOCK FALSE
