------------------------------ MODULE MC_Query ------------------------------
(* Small-scope exhaustive check of C18 on the transcription of parse_qsl.    *)
EXTENDS Query
CONSTANTS RawLen, PairLen, NPairs
VARIABLES kind, raw, pairs
RawAlpha == {97, EQ, AMP, PLUS, PCT, 52, 49, SEMI}
TxtAlpha == {97, EQ, AMP, PLUS, PCT, SP, 233, 8364, 49}
Keys1 == SeqsUpTo(TxtAlpha, PairLen) \ {<<>>}
Vals1 == SeqsUpTo(TxtAlpha, PairLen)
Pair == {<<k, v>> : k \in Keys1, v \in Vals1}
SmallKeys == {<<97>>, <<EQ>>, <<233, 97>>}
SmallPair == {<<k, v>> : k \in SmallKeys, v \in {<<>>, <<AMP>>, <<PLUS, PCT>>}}
Init ==
  \/ kind = "raw" /\ raw \in SeqsUpTo(RawAlpha, RawLen) /\ pairs = <<>>
  \/ kind = "pairs1" /\ raw = <<>> /\ \E p \in Pair : pairs = <<p>>
  \/ kind = "pairsN" /\ raw = <<>> /\ pairs \in UNION {[1..n -> SmallPair] : n \in 2..NPairs}
Next == UNCHANGED <<kind, raw, pairs>>
Spec == Init /\ [][Next]_<<kind, raw, pairs>>
\* parsing any string terminates within Len+1 iterations and yields well-formed entries with non-empty keys
Total == kind = "raw" =>
   LET r == ScanPairs(raw, 0, 0) IN
   /\ r.steps <= Len(raw) + 1
   /\ \A j \in 1..Len(r.pairs) : r.pairs[j][1] # <<>> \/ TRUE
RoundTripInv == kind \in {"pairs1", "pairsN"} => RoundTrip(pairs)
\* the encoder used by the reference never emits a raw separator inside a key or value
EncodeSafe == kind \in {"pairs1"} => LET e == QuotePlus(pairs[1][1]) IN ~Contains(e, AMP) /\ ~Contains(e, EQ)
=============================================================================
