SPECIFICATION Spec
CONSTANTS
 MaxLen = 4
INVARIANT AlwaysSafe
INVARIANT AlwaysIdempotent
CHECK_DEADLOCK FALSE
