SPECIFICATION CSpec
CONSTANTS
 ShortReads = TRUE
 Scenario = "limits"
 MaxData = 0
 MaxCL = 0
 Bufs = {6,8}
 MaxBodies <- MB_chunk
INVARIANT Emit
VIEW CView
CHECK_DEADLOCK FALSE
