SPECIFICATION Spec
CONSTANTS
 RawLen = 5
 PairLen = 2
 NPairs = 3
INVARIANT Total
INVARIANT RoundTripInv
INVARIANT EncodeSafe
CHECK_DEADLOCK FALSE
