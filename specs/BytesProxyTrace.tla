---------------------------- MODULE BytesProxyTrace -------------------------
(* Recorded call sequences on the real BytesIOProxy: window [st,end) over a    *)
(* source whose byte i has value i; ops = [op, a, w, tell (after the call),    *)
(* data (bytes returned by read)].                                             *)
EXTENDS Naturals, Integers, Sequences, TLC, Json, IOUtils, TLCExt
Traces == JsonDeserialize(IOEnv.TRACE_FILE)
VARIABLES tid, l, pos, mech
T == Traces[tid]
Min2(a, b) == IF a < b THEN a ELSE b
SeekSet(p) == Min2(T.st + (IF p < 0 THEN 0 ELSE p), T.end)
TInit == tid \in 1..Len(Traces) /\ l = 1 /\ pos = Traces[tid].st /\ mech = TRUE
TStep == /\ l <= Len(T.ops)
         /\ LET o == T.ops[l] IN
            IF o.op = "seek" THEN
               LET np == IF o.w = 0 THEN SeekSet(o.a) ELSE IF o.w = 1 THEN SeekSet(pos - T.st + o.a) ELSE SeekSet(T.end + o.a - T.st) IN
               pos' = np /\ mech' = (mech /\ o.tell = np - T.st)
            ELSE LET maxsz == T.end - pos
                     n == IF maxsz <= 0 THEN 0 ELSE IF o.a > 0 THEN Min2(o.a, maxsz) ELSE maxsz IN
               pos' = pos + n /\ mech' = (mech /\ o.data = [i \in 1..n |-> pos + i] /\ o.tell = pos + n - T.st)
         /\ l' = l + 1 /\ UNCHANGED tid
TSpec == TInit /\ [][TStep]_<<tid, l, pos, mech>>
\* property level, from the record alone: every returned byte lies in the window; a read is contiguous and ends at the reported position
OpFails(o) ==
  (IF o.tell < 0 \/ o.tell > T.end - T.st THEN {"TellInRange"} ELSE {})
  \cup (IF o.op = "read" /\ \E i \in 1..Len(o.data) : ~(o.data[i] > T.st /\ o.data[i] <= T.end) THEN {"OnlyWindowBytes"} ELSE {})
  \cup (IF o.op = "read" /\ o.data # [i \in 1..Len(o.data) |-> T.st + o.tell - Len(o.data) + i] THEN {"ReadIsContiguous"} ELSE {})
Bookkeeping ==
  /\ ((l = Len(T.ops) + 1 /\ mech) => TLCSet(1, TLCGet(1) \cup {tid}))
  /\ (l > 1 => LET f == OpFails(T.ops[l - 1]) IN (f # {} => TLCSet(2, TLCGet(2) \cup {<<tid, c>> : c \in f})))
ASSUME TLCSet(1, {}) /\ TLCSet(2, {})
Report == /\ PrintT(<<"MECH_MISSING", ToJson((1..Len(Traces)) \ TLCGet(1))>>)
          /\ PrintT(<<"PROP_FAILS", ToJson(TLCGet(2))>>)
=============================================================================
