----------------------------- MODULE HeaderTrace ----------------------------
(* Records of real header operations.  A record: calls (sequence of           *)
(* [entry, name, lname, t, s, out]) applied to one response, status, emitted  *)
(* (the header list handed to start_response / returned by headerlist as      *)
(* [name, lname, val]), where val is the list of code points of the native    *)
(* string.                                                                    *)
EXTENDS Headers, Json, IOUtils, TLCExt
Traces == JsonDeserialize(IOEnv.TRACE_FILE)
VARIABLE tid
T == Traces[tid]
Own(t) == {i \in 1..Len(t.emitted) : \E c \in 1..Len(t.calls) : t.calls[c].name = t.emitted[i].name}
AcceptedVals(t, name) ==    \* what the reference says must be emitted for this name, in order
  LET RECURSIVE Go(_, _)
      Go(c, acc) == IF c > Len(t.calls) THEN acc
         ELSE LET k == t.calls[c] IN
           IF k.name # name \/ k.out # "ok" THEN Go(c + 1, acc)
           ELSE IF k.entry \in {"setitem", "property"} THEN Go(c + 1, <<k.s>>)
           ELSE IF k.entry \in {"append", "ctor"} THEN Go(c + 1, Append(acc, k.s))
           ELSE Go(c + 1, IF acc = <<>> THEN <<k.s>> ELSE acc)
  IN Go(1, <<>>)
EmittedVals(t, name) == LET idx == SelectSeq([i \in 1..Len(t.emitted) |-> i], LAMBDA i : t.emitted[i].name = name) IN
                        [j \in 1..Len(idx) |-> t.emitted[idx[j]].val]
Names(t) == {t.calls[c].name : c \in 1..Len(t.calls)}
LNameOf(t, name) == (CHOOSE c \in 1..Len(t.calls) : t.calls[c].name = name)
PropFails(t) ==
  (IF \E c \in 1..Len(t.calls) : HasCtl(t.calls[c].s) /\ t.calls[c].t = "str" /\ t.calls[c].out = "ok" THEN {"CtlRejected"} ELSE {})
  \cup (IF \E i \in 1..Len(t.emitted) : HasCtl(t.emitted[i].val) THEN {"NoCtlEmitted"} ELSE {})
  \cup (IF \E i \in 1..Len(t.emitted) : \E j \in 1..Len(t.emitted[i].val) : t.emitted[i].val[j] > 255 THEN {"Latin1"} ELSE {})
  \* (a name none of whose values was accepted may still be emitted by the framework itself: Content-Length, default Content-Type)
  \cup (IF \E n \in Names(t) : t.calls[LNameOf(t, n)].lname \notin BadFor(t.status) /\ AcceptedVals(t, n) # <<>> /\
             EmittedVals(t, n) # [j \in 1..Len(AcceptedVals(t, n)) |-> Latin1View(AcceptedVals(t, n)[j])] THEN {"ValuesInOrder"} ELSE {})
  \cup (IF \E i \in 1..Len(t.emitted) : t.emitted[i].lname \in BadFor(t.status) THEN {"Blacklist"} ELSE {})
  \cup (IF \E c \in 1..Len(t.calls) : t.calls[c].t \in OkTypes /\ ~HasCtl(t.calls[c].s) /\ t.calls[c].out # "ok" THEN {"CleanAccepted"} ELSE {})
MechOK(t) == \A c \in 1..Len(t.calls) : t.calls[c].out = Hval([t |-> t.calls[c].t, s |-> t.calls[c].s])
Init == tid \in 1..Len(Traces)
Next == UNCHANGED tid
Spec == Init /\ [][Next]_tid
Bookkeeping ==
  /\ (MechOK(T) => TLCSet(1, TLCGet(1) \cup {tid}))
  /\ LET f == PropFails(T) IN (f # {} => TLCSet(2, TLCGet(2) \cup {<<tid, c>> : c \in f}))
ASSUME TLCSet(1, {}) /\ TLCSet(2, {})
Report == /\ PrintT(<<"MECH_MISSING", ToJson((1..Len(Traces)) \ TLCGet(1))>>)
          /\ PrintT(<<"PROP_FAILS", ToJson(TLCGet(2))>>)
=============================================================================
