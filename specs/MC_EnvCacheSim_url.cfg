SPECIFICATION SSpec
CONSTANTS
  MaxV = 1
  FullInval = FALSE
  VarKeys <- K_url
INVARIANT Emit
CONSTRAINT Bound
CHECK_DEADLOCK FALSE
