SPECIFICATION TSpec
CONSTANTS
 MaxOps = 0
 Universe <- NoRules
 HookRules <- NoRules
 Alphabet <- NoAlpha
 ProbeLen = 0
 CheckNames = TRUE
CONSTRAINT Bookkeeping
POSTCONDITION Report
CHECK_DEADLOCK FALSE
