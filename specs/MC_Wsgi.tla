------------------------------- MODULE MC_Wsgi ------------------------------
(* All handler programs of the grammar (depth <= 2) x request method x        *)
(* file-wrapper x routing outcome x hooks x error handlers.                   *)
EXTENDS Wsgi
CONSTANTS Scenario
VARIABLES prog, env
vars == <<prog, env>>
Ns == {0, 3}
Str(n, w) == [t |-> "str", n |-> n, wide |-> w]
Bytes(n) == [t |-> "bytes", n |-> n]
Leaf == {[t |-> "none"], [t |-> "int"]} \cup {Str(n, w) : n \in Ns, w \in BOOLEAN} \cup {Bytes(n) : n \in Ns}
CF == {<<TRUE, TRUE>>, <<TRUE, FALSE>>, <<FALSE, FALSE>>}      \* <<closeable, its close() raises>>
Files == {[t |-> "file", n |-> n, closeable |-> c[1], closefail |-> c[2], id |-> 7] : n \in Ns, c \in CF}
Items == {[t |-> "estr"], [t |-> "ebytes"], Str(2, FALSE), Str(1, TRUE), Bytes(2), [t |-> "int"], [t |-> "raise"],
          [t |-> "iresp", code |-> 201, n |-> 2], [t |-> "rresp", code |-> 202, n |-> 2]}
Kind(i) == IF i.t \in {"str", "estr"} THEN "s" ELSE IF i.t \in {"bytes", "ebytes"} THEN "b" ELSE "x"
\* after the first non-empty str/bytes item only items of the same string kind follow
Homog(s) == \A i, j \in 1..Len(s) : i < j => ~(Kind(s[i]) = "s" /\ Kind(s[j]) = "b") /\ ~(Kind(s[i]) = "b" /\ Kind(s[j]) = "s")
                                          /\ ~(Kind(s[i]) \in {"s", "b"} /\ ~EmptyItem(s[i]) /\ Kind(s[j]) = "x")
ItemSeqs == {s \in UNION {[1..k -> Items] : k \in 0..3} : Homog(s)}
Iters == {[t |-> "gen", items |-> s, closeable |-> c[1], closefail |-> c[2], id |-> 5] : s \in ItemSeqs, c \in CF}
         \cup {[t |-> "list", items |-> s] : s \in {x \in ItemSeqs : \A i \in 1..Len(x) : x[i].t \in {"estr", "ebytes", "str", "bytes"}}}
L1 == Leaf \cup Files \cup Iters
Codes == {100, 102, 200, 201, 204, 304, 404, 418, 500}
Wrap(S) == {[t |-> "err", code |-> c] : c \in {404, 418, 500}} \cup {[t |-> "resp", code |-> c, body |-> b] : c \in Codes, b \in S}
Small == {[t |-> "none"], Str(3, TRUE), Bytes(3), [t |-> "gen", items |-> <<[t |-> "estr"], Str(2, FALSE)>>, closeable |-> TRUE, closefail |-> FALSE, id |-> 5],
          [t |-> "file", n |-> 3, closeable |-> TRUE, closefail |-> FALSE, id |-> 7],
          [t |-> "file", n |-> 3, closeable |-> TRUE, closefail |-> TRUE, id |-> 7], [t |-> "err", code |-> 404]}
L2 == L1 \cup Wrap(L1) \cup {[t |-> "resp", code |-> 201, body |-> w] : w \in Wrap(Small)}
Progs == {[k |-> "ret", v |-> v, setst |-> s] : v \in L2, s \in {0}} \cup {[k |-> "ret", v |-> v, setst |-> s] : v \in Small, s \in {204, 102, 299}}
         \cup {[k |-> "raise", v |-> v] : v \in Wrap(Small)} \cup {[k |-> "exc"]}
FewProgs == {[k |-> "ret", v |-> v, setst |-> 0] : v \in Small} \cup {[k |-> "exc"], [k |-> "raise", v |-> [t |-> "resp", code |-> 202, body |-> Str(3, FALSE)]]}
Env(m, fw, r, nb, fa, na, eh) == [method |-> m, fw |-> fw, routing |-> r, nb |-> nb, failAt |-> fa, na |-> na, errh |-> eh,
                                  errcodes |-> IF eh = "none" THEN {} ELSE {404, 500}]
Init ==
  \/ /\ Scenario = "cast" /\ prog \in Progs
     /\ \E m \in {"GET", "HEAD"}, fw \in BOOLEAN : env = Env(m, fw, "found", 0, 0, 0, "none")
  \/ /\ Scenario = "env" /\ prog \in FewProgs
     /\ \E m \in {"GET", "HEAD", "POST"}, fw \in BOOLEAN, r \in {"found", "404", "405"}, nb \in 0..2, na \in 0..2, eh \in {"none", "str", "raise"} :
          \E fa \in 0..nb : env = Env(m, fw, r, nb, fa, na, eh)
Next == UNCHANGED vars
Spec == Init /\ [][Next]_vars
R == Run(prog, env)
OneSR == R.sr = 1
CLRight == (R.cl >= 0 /\ MayCarryBody(R.status, env.method)) => R.cl = R.sent
NoBody == ~MayCarryBody(R.status, env.method) => R.sent = 0
\* the iterable whose items are forwarded is closed exactly once (by the server, or by wsgi when the body is suppressed)
ClosedOnce == LET f == Forwarded(Handled(prog, env).out, 8) IN (f # 0 /\ ~R.crit) => (R.closedId = f /\ R.closed = 1)
Fail500 == Handled(prog, env).failed => R.status = 500
HooksInv == R.hooks = HookLog(env) /\ Len(R.hooks) = BeforeRun(env) + env.na
StatusOK == R.status \in 100..999
=============================================================================
