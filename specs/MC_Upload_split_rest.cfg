SPECIFICATION SplitSpec
CONSTANTS
 NTop = 2
 Data <- DataC
CONSTRAINT SinkBound
INVARIANT TypeOK
INVARIANT InvCursorKept
INVARIANT InvOneTarget
INVARIANT InvSavedIsRest
INVARIANT InvDirsStay
CHECK_DEADLOCK FALSE
VIEW View
