SPECIFICATION Spec
CONSTANTS PerInstance = FALSE
INVARIANT Isolation
CHECK_DEADLOCK FALSE
