------------------------------ MODULE Filename ------------------------------
(* Beyond the listed properties: FileUpload.filename (request_pkg/helpers.py), *)
(* the file-system safe name derived from the client's raw file name:          *)
(*   NFKD -> ASCII (ignore) -> '\' to '/' -> basename -> drop everything but    *)
(*   [A-Za-z0-9-_.] and white space -> strip -> runs of '-'/white space to one  *)
(*   '-' -> strip('.-') -> first 255 characters, 'empty' if nothing is left.    *)
(* Text is Seq(Nat).  Sanitise transcribes the steps; Safe is what a caller     *)
(* relies on when it joins the name to a directory.                             *)
EXTENDS Text, TLC
BSLc == 92  USc == 95  TAB == 9  NBSP == 160  DOT == 46
IsAlpha(c) == c \in 65..90 \/ c \in 97..122
\* NFKD followed by encode('ASCII', 'ignore') for the code points of the model alphabet
FnDecomp(c) ==
  IF c < 128 THEN <<c>>
  ELSE IF c = 233 THEN <<101>>                 \* e-acute -> e + combining acute (dropped)
  ELSE IF c = 64257 THEN <<102, 105>>          \* fi ligature -> f i
  ELSE IF c = 189 THEN <<49, 50>>              \* one half -> 1 FRACTION SLASH 2 -> "12"
  ELSE IF c = NBSP THEN <<SP>>                 \* no-break space -> space (compatibility)
  ELSE IF c = 65295 THEN <<SLASH>>             \* FULLWIDTH SOLIDUS -> '/'
  ELSE IF c = 65294 THEN <<DOT>>               \* FULLWIDTH FULL STOP -> '.'
  ELSE <<>>                                    \* no ASCII decomposition (sharp s, CJK, emoji): dropped
FnToAscii(s) == Flatten([i \in 1..Len(s) |-> FnDecomp(s[i])])
FnWs(c) == c \in {SP, TAB, LF, CR, 11, 12, 28, 29, 30, 31}          \* str.isspace() / \s on ASCII text
RECURSIVE FnLastIdx(_, _)
FnLastIdx(s, c) == IF s = <<>> THEN 0 ELSE IF s[Len(s)] = c THEN Len(s) ELSE FnLastIdx(SubSeq(s, 1, Len(s) - 1), c)
FnBasename(s) == LET t == [i \in 1..Len(s) |-> IF s[i] = BSLc THEN SLASH ELSE s[i]]
                   k == FnLastIdx(t, SLASH) IN SubSeq(t, k + 1, Len(t))
FnAllowed(c) == IsAlpha(c) \/ IsDigit(c) \/ c \in {HY, USc, DOT} \/ FnWs(c)
FnKeep(s) == SelectSeq(s, FnAllowed)
RECURSIVE FnLStrip(_, _)
FnLStrip(s, S) == IF s # <<>> /\ Head(s) \in S THEN FnLStrip(Tail(s), S) ELSE s
RECURSIVE FnRStrip(_, _)
FnRStrip(s, S) == IF s # <<>> /\ s[Len(s)] \in S THEN FnRStrip(SubSeq(s, 1, Len(s) - 1), S) ELSE s
FnStrip(s, S) == FnRStrip(FnLStrip(s, S), S)
WsSet == {SP, TAB, LF, CR, 11, 12, 28, 29, 30, 31}
DashOrWs(c) == c = HY \/ FnWs(c)
\* re.sub(r'[-\s]+', '-', s)
RECURSIVE FnCollapse(_)
FnCollapse(s) == IF s = <<>> THEN <<>>
               ELSE IF DashOrWs(Head(s)) THEN <<HY>> \o FnCollapse(FnLStrip(s, WsSet \cup {HY}))
               ELSE <<Head(s)>> \o FnCollapse(Tail(s))
DotOrDash(c) == c \in {DOT, HY}
EMPTYW == <<101, 109, 112, 116, 121>>
Sanitise(raw) ==
  LET a == FnToAscii(raw)
      b == FnBasename(a)
      c == FnStrip(FnKeep(b), WsSet)
      d == FnStrip(FnCollapse(c), {DOT, HY})
      e == SubSeq(d, 1, Min2(Len(d), 255)) IN
  IF e = <<>> THEN EMPTYW ELSE e

\* what a caller may rely on
SafeChar(c) == IsAlpha(c) \/ IsDigit(c) \/ c \in {HY, USc, DOT}
Safe(n) == /\ n # <<>> /\ Len(n) <= 255
           /\ \A i \in 1..Len(n) : SafeChar(n[i])                  \* in particular no separator, no white space, no NUL
           /\ ~DotOrDash(n[1]) /\ ~DotOrDash(n[Len(n)])             \* not hidden, not an option, not '.' or '..'
Idempotent(raw) == Sanitise(Sanitise(raw)) = Sanitise(raw)
=============================================================================
