SPECIFICATION Spec
POSTCONDITION Report
CHECK_DEADLOCK FALSE
