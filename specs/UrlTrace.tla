------------------------------- MODULE UrlTrace -----------------------------
(* Records of real Route.url calls: rule (pat, filters), path, vals (text of  *)
(* the values the real router delivered for the path, one per wildcard), url  *)
(* (built URL, [] if an exception), exc, re (re-resolution of the built URL:  *)
(* found, same route, vals2).                                                 *)
EXTENDS Url, Json, IOUtils, TLCExt
Traces == JsonDeserialize(IOEnv.TRACE_FILE)
VARIABLE tid
T == Traces[tid]
Rl(t) == [pat |-> t.pat, filters |-> t.filters]
PropFails(t) ==
  (IF t.exc # "" THEN {"UrlBuilt"} ELSE {})
  \cup (IF t.exc = "" /\ ~(t.re.found /\ t.re.same) THEN {"Rematch"} ELSE {})
  \cup (IF t.exc = "" /\ t.re.found /\ t.re.same /\ t.re.vals # t.vals THEN {"SameValues"} ELSE {})
  \cup (IF t.exc = "" /\ ~InOrder(Literals(t.pat, <<>>), t.url, 0) THEN {"LiteralsInOrder"} ELSE {})
MechOK(t) == t.exc = "" /\ (t.simple => t.url = BuildUrl(Rl(t), t.raw))
Init == tid \in 1..Len(Traces)
Next == UNCHANGED tid
Spec == Init /\ [][Next]_tid
Bookkeeping ==
  /\ (MechOK(T) => TLCSet(1, TLCGet(1) \cup {tid}))
  /\ LET f == PropFails(T) IN (f # {} => TLCSet(2, TLCGet(2) \cup {<<tid, c>> : c \in f}))
ASSUME TLCSet(1, {}) /\ TLCSet(2, {})
Report == /\ PrintT(<<"MECH_MISSING", ToJson((1..Len(Traces)) \ TLCGet(1))>>)
          /\ PrintT(<<"PROP_FAILS", ToJson(TLCGet(2))>>)
=============================================================================
