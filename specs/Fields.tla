-------------------------------- MODULE Fields ------------------------------
(* C07 / C12 / C13(form text): multipart fields.                              *)
(* Implementation-shaped part: FieldStorage.parse_header (the option regex    *)
(*   (.+?)(=("[^"]*"|.+?))?(;|$)  under finditer, strip('"')),                *)
(*   FieldStorage.iter_items / read (section pairing, UTF-8 decoding, the     *)
(*   in-memory budget) and the collection loop of BodyMixin.POST               *)
(*   (forms / files / post with list promotion), on top of the scanner of     *)
(*   Multipart.tla parsed in one piece.                                       *)
(* Reference part: an RFC 7578 encoder and the statement                      *)
(*   Parse(Encode(fields)) = fields.                                          *)
(* REPAIRED mechanism: quoted option values may contain ';', text and file    *)
(* parts with one name are collected separately, malformed input is a         *)
(* BodyParsingError.                                                          *)
EXTENDS Multipart, Query

\* ---- the option regex, one match starting at 0-based p: [ok, g1, hasv, g3, next]
AtEndF(s, e) == e = Len(s) \/ (e = Len(s) - 1 /\ s[Len(s)] = LF)
Dot(s, i) == i < Len(s) /\ s[i + 1] # LF
Term(s, e) == (e < Len(s) /\ s[e + 1] = SEMI) \/ AtEndF(s, e)
RECURSIVE G3Lazy(_, _, _)
G3Lazy(s, st, e) ==     \* smallest e > st with dots in between and a terminator at e
  IF e > Len(s) THEN -1
  ELSE IF e > st /\ Term(s, e) THEN e
  ELSE IF Dot(s, e) THEN G3Lazy(s, st, e + 1) ELSE -1
\* "[^"]*" starting at st (s[st+1] must be the opening quote): position after the closing quote, or -1
G3Quoted(s, st) ==
  IF st < Len(s) /\ s[st + 1] = QUOTE THEN
     LET q == IndexFrom(s, QUOTE, st + 1) IN IF q < 0 THEN -1 ELSE (IF Term(s, q + 1) THEN q + 1 ELSE -1)
  ELSE -1
G3(s, st) == LET q == G3Quoted(s, st) IN IF q >= 0 THEN q ELSE G3Lazy(s, st, st)
RECURSIVE G1(_, _, _)
G1(s, p, e) ==
  IF e > Len(s) THEN [ok |-> FALSE]
  ELSE IF e > p THEN
     LET withv == IF e < Len(s) /\ s[e + 1] = EQ THEN G3(s, e + 1) ELSE -1 IN
     IF withv >= 0 THEN [ok |-> TRUE, g1 |-> Slice(s, p, e), hasv |-> TRUE, g3 |-> Slice(s, e + 1, withv),
                         next |-> IF withv < Len(s) /\ s[withv + 1] = SEMI THEN withv + 1 ELSE withv]
     ELSE IF e < Len(s) /\ s[e + 1] = SEMI THEN [ok |-> TRUE, g1 |-> Slice(s, p, e), hasv |-> FALSE, g3 |-> <<>>, next |-> e + 1]
     ELSE IF AtEndF(s, e) THEN [ok |-> TRUE, g1 |-> Slice(s, p, e), hasv |-> FALSE, g3 |-> <<>>, next |-> e]
     ELSE IF Dot(s, e) THEN G1(s, p, e + 1) ELSE [ok |-> FALSE]
  ELSE IF Dot(s, e) THEN G1(s, p, e + 1) ELSE [ok |-> FALSE]
RECURSIVE FindOpt(_, _)
FindOpt(s, p) == IF p >= Len(s) THEN [ok |-> FALSE] ELSE LET m == G1(s, p, p) IN IF m.ok THEN m ELSE FindOpt(s, p + 1)
RECURSIVE Opts(_, _, _)
Opts(s, p, acc) == LET m == FindOpt(s, p) IN
  IF ~m.ok THEN acc
  ELSE Opts(s, m.next, Append(acc, [k |-> Strip(m.g1), hasv |-> m.hasv, v |-> IF m.hasv THEN StripC(m.g3, QUOTE) ELSE <<>>]))
Lower(c) == IF c \in 65..90 THEN c + 32 ELSE c
LowerS(s) == [i \in 1..Len(s) |-> Lower(s[i])]
\* parse_header(s): [ok, htype, hvalue, opts]
ParseHeaderLine(s) ==
  LET ci == IndexOf(s, COLON) IN
  IF ci < 0 THEN [ok |-> FALSE]
  ELSE LET rest == From(s, ci + 1)
           first == FindOpt(rest, 0) IN
       IF ~first.ok THEN [ok |-> FALSE]
       ELSE [ok |-> TRUE, htype |-> Slice(s, 0, ci), hvalue |-> Strip(first.g1), opts |-> Opts(rest, first.next, <<>>)]
\* dict lookup: the last option with that (lower-cased) key; <<>> = absent, <<v>> = present
OptGet(opts, key) ==
  LET hits == {i \in 1..Len(opts) : LowerS(opts[i].k) = key} IN
  IF hits = {} THEN <<>> ELSE LET o == opts[MaxOf(hits)] IN IF o.hasv THEN <<o.v>> ELSE <<>>     \* an option without value is None

\* ---- str.splitlines() restricted to \n, \r\n, \r
RECURSIVE SplitLines(_, _)
SplitLines(s, cur) ==
  IF s = <<>> THEN (IF cur = <<>> THEN <<>> ELSE <<cur>>)
  ELSE IF Head(s) = CR THEN <<cur>> \o SplitLines(IF Len(s) >= 2 /\ s[2] = LF THEN SubSeq(s, 3, Len(s)) ELSE Tail(s), <<>>)
  ELSE IF Head(s) = LF THEN <<cur>> \o SplitLines(Tail(s), <<>>)
  ELSE SplitLines(Tail(s), Append(cur, Head(s)))
ValidUtf8(bs) == ~Contains(Utf8Decode(bs), REPL) \/ Contains(bs, 239)   \* (U+FFFD itself never occurs in generated input)
NAMEK == <<110, 97, 109, 101>>
FILENAMEK == <<102, 105, 108, 101, 110, 97, 109, 101>>
CDISP == <<67, 111, 110, 116, 101, 110, 116, 45, 68, 105, 115, 112, 111, 115, 105, 116, 105, 111, 110>>
CTYPE == <<67, 111, 110, 116, 101, 110, 116, 45, 84, 121, 112, 101>>

\* FieldStorage.read for one (headers, data) pair: [err, name, filename (opt), ctype (opt), isfile, value/data, hasRead]
RECURSIVE ReadHdrs(_, _, _)
ReadHdrs(lines, i, acc) ==     \* acc = [err, name, fname, ctype] with options encoded as <<>> / <<x>>
  IF i > Len(lines) \/ acc.err # "" THEN acc
  ELSE LET h == ParseHeaderLine(lines[i]) IN
    IF ~h.ok THEN [acc EXCEPT !.err = "BodyParsingError"]
    ELSE IF h.htype = CDISP THEN ReadHdrs(lines, i + 1, [acc EXCEPT !.name = OptGet(h.opts, NAMEK), !.fname = OptGet(h.opts, FILENAMEK)])
    ELSE IF h.htype = CTYPE THEN ReadHdrs(lines, i + 1, [acc EXCEPT !.ctype = <<h.hvalue>>])
    ELSE ReadHdrs(lines, i + 1, acc)
ReadField(body, hs, he, ds, de, maxRead) ==
  LET hraw == Slice(body, hs, he)
      hsz == he - hs IN
  IF hsz > maxRead THEN [err |-> "BodySizeError"]
  ELSE IF ~ValidUtf8(hraw) THEN [err |-> "BodyParsingError"]
  ELSE LET hd == ReadHdrs(SplitLines(Utf8Decode(hraw), <<>>), 1, [err |-> "", name |-> <<>>, fname |-> <<>>, ctype |-> <<>>]) IN
    IF hd.err # "" THEN [err |-> hd.err]
    ELSE IF hd.name = <<>> THEN [err |-> "BodyParsingError"]
    ELSE IF hd.fname # <<>> THEN [err |-> "", name |-> hd.name[1], isfile |-> TRUE, fname |-> hd.fname[1], ctype |-> hd.ctype,
                                  data |-> Slice(body, ds, de), hasRead |-> hsz]
    ELSE LET dsz == de - ds IN
      IF dsz > 0 /\ hsz + dsz > maxRead THEN [err |-> "BodySizeError"]
      ELSE IF ~ValidUtf8(Slice(body, ds, de)) THEN [err |-> "BodyParsingError"]
      ELSE [err |-> "", name |-> hd.name[1], isfile |-> FALSE, fname |-> <<>>, ctype |-> hd.ctype,
            data |-> Utf8Decode(Slice(body, ds, de)), hasRead |-> hsz + dsz]
\* FieldStorage.iter_items over the markup list: [err, items]
RECURSIVE IterItems(_, _, _, _, _)
IterItems(body, mk, i, maxRead, acc) ==
  IF i > Len(mk) THEN [err |-> "", items |-> acc]
  ELSE IF mk[i][1] # "headers" THEN [err |-> "BodyParsingError", items |-> acc]
  ELSE IF i + 1 > Len(mk) \/ mk[i + 1][1] # "data" THEN [err |-> "BodyParsingError", items |-> acc]
  ELSE LET f == ReadField(body, mk[i][2], mk[i][3], mk[i + 1][2], mk[i + 1][3], maxRead) IN
    IF f.err # "" THEN [err |-> f.err, items |-> acc]
    ELSE IterItems(body, mk, i + 2, maxRead - f.hasRead, Append(acc, f))
\* BodyMixin.POST for a multipart body: [err, forms, files] as sequences of <<name, values>> in first-occurrence order
AddTo(d, name, v) ==
  IF \E i \in 1..Len(d) : d[i][1] = name
  THEN [i \in 1..Len(d) |-> IF d[i][1] = name THEN <<name, Append(d[i][2], v)>> ELSE d[i]]
  ELSE Append(d, <<name, <<v>>>>)
RECURSIVE Collect2(_, _, _, _)
Collect2(items, i, forms, files) ==
  IF i > Len(items) THEN [forms |-> forms, files |-> files]
  ELSE LET it == items[i] IN
    IF it.isfile /\ it.fname # <<>> THEN Collect2(items, i + 1, forms, AddTo(files, it.name, [fname |-> it.fname, ctype |-> it.ctype, data |-> it.data]))
    ELSE Collect2(items, i + 1, AddTo(forms, it.name, it.data), files)
ParseForm(body, maxRead) ==
  LET mm == IF body = <<>> THEN InitMM ELSE ParseChunk(InitMM, body) IN
  IF mm.error # "" THEN [err |-> "BodyParsingError", forms |-> <<>>, files |-> <<>>]
  ELSE IF mm.markups = <<>> THEN [err |-> "", forms |-> <<>>, files |-> <<>>]
  ELSE IF mm.markups[1][1] # "data" \/ mm.markups[1][3] > 0 THEN [err |-> "BodyParsingError", forms |-> <<>>, files |-> <<>>]
  ELSE LET r == IterItems(body, SubSeq(mm.markups, 2, Len(mm.markups)), 1, maxRead, <<>>) IN
    IF r.err # "" THEN [err |-> r.err, forms |-> <<>>, files |-> <<>>]
    ELSE LET c == Collect2(r.items, 1, <<>>, <<>>) IN [err |-> "", forms |-> c.forms, files |-> c.files]

\* ---- reference: RFC 7578 encoder over fields [name, isfile, fname, ctype (<<>>/<<x>>), data (text for fields, bytes for files)]
Bytes(s) == Flatten([j \in 1..Len(s) |-> Utf8(s[j])])
Lit(str) == str
FORMDATA == <<67, 111, 110, 116, 101, 110, 116, 45, 68, 105, 115, 112, 111, 115, 105, 116, 105, 111, 110, 58, 32, 102, 111, 114, 109, 45, 100, 97, 116, 97, 59, 32, 110, 97, 109, 101, 61, 34>>
FNPART == <<34, 59, 32, 102, 105, 108, 101, 110, 97, 109, 101, 61, 34>>
CTLINE == <<67, 111, 110, 116, 101, 110, 116, 45, 84, 121, 112, 101, 58, 32>>
EncodeField(f) ==
  <<HY, HY>> \o Boundary \o CRLF \o FORMDATA \o Bytes(f.name)
  \o (IF f.isfile THEN FNPART \o Bytes(f.fname) ELSE <<>>) \o <<QUOTE>> \o CRLF
  \o (IF f.ctype # <<>> THEN CTLINE \o Bytes(f.ctype[1]) \o CRLF ELSE <<>>)
  \o CRLF \o (IF f.isfile THEN f.data ELSE Bytes(f.data)) \o CRLF
EncodeForm(fs) == Flatten([j \in 1..Len(fs) |-> EncodeField(fs[j])]) \o <<HY, HY>> \o Boundary \o <<HY, HY>> \o CRLF
\* what must come out
Expected(fs) ==
  LET RECURSIVE Go(_, _, _)
      Go(i, forms, files) == IF i > Len(fs) THEN [forms |-> forms, files |-> files]
        ELSE IF fs[i].isfile THEN Go(i + 1, forms, AddTo(files, fs[i].name, [fname |-> fs[i].fname, ctype |-> fs[i].ctype, data |-> fs[i].data]))
        ELSE Go(i + 1, AddTo(forms, fs[i].name, fs[i].data), files)
  IN Go(1, <<>>, <<>>)
FormRoundTrip(fs, maxRead) == LET r == ParseForm(EncodeForm(fs), maxRead)  e == Expected(fs) IN r.err = "" /\ r.forms = e.forms /\ r.files = e.files
=============================================================================
