------------------------------- MODULE Cookies ------------------------------
(* C15: signed cookies (common_helpers.cookie_encode / cookie_decode,         *)
(* PropsMixin.get_cookie) with symbolic cryptography.  The wire value is a    *)
(* sequence of symbols                                                        *)
(*     "!"  sig_1 .. sig_n  "?"  msg_1 .. msg_k                               *)
(* Mac(k, msg) is an uninterpreted injective constructor: its i-th symbol is  *)
(* <<"mac", k, msg, i>> (it depends on the key and on the WHOLE presented     *)
(* message).  B64/pickle are injective: a message symbol is <<"m", id, i>>.   *)
(* The attacker edits a captured value; Loads is the only way to deserialise. *)
EXTENDS Naturals, Sequences, FiniteSets, TLC
CONSTANTS Keys, MsgIds, SigLen, MsgLen, MaxEdits
Bang == <<"!">>  Q == <<"?">>  Junk == <<"x">>
MsgOf(id) == [i \in 1..MsgLen |-> <<"m", id, i>>]
Mac(k, msg) == [i \in 1..SigLen |-> <<"mac", k, msg, i>>]
Mint(k, id) == <<Bang>> \o Mac(k, MsgOf(id)) \o <<Q>> \o MsgOf(id)

VARIABLES wire, readerKey, origKey, origId, edited, loaded, result
vars == <<wire, readerKey, origKey, origId, edited, loaded, result>>

Init == /\ origKey \in Keys /\ origId \in MsgIds /\ readerKey \in Keys
        /\ wire = Mint(origKey, origId) /\ edited = 0 /\ loaded = {} /\ result = "unread"

\* ---- attacker edits (one or two of them)
Subst == \E i \in 1..Len(wire), s \in {Junk, Bang, Q} \cup {<<"m", id, j>> : id \in MsgIds, j \in 1..MsgLen} :
           s # wire[i] /\ wire' = [wire EXCEPT ![i] = s]
Delete == \E i \in 1..Len(wire) : wire' = SubSeq(wire, 1, i - 1) \o SubSeq(wire, i + 1, Len(wire))
Truncate == \E n \in 0..(Len(wire) - 1) : wire' = SubSeq(wire, 1, n)
Insert == \E i \in 0..Len(wire) : wire' = SubSeq(wire, 1, i) \o <<Junk>> \o SubSeq(wire, i + 1, Len(wire))
\* the attacker can mint under any key but the reader's, and can reuse signatures of cookies the server issued (origKey)
SwapSig == \E k \in Keys, id \in MsgIds : (k # readerKey \/ k = origKey) /\
              wire' = <<Bang>> \o Mac(k, MsgOf(id)) \o <<Q>> \o MsgOf(origId) /\ wire' # wire
SwapMsg == \E id \in MsgIds : id # origId /\ wire' = <<Bang>> \o Mac(origKey, MsgOf(origId)) \o <<Q>> \o MsgOf(id)
EmptySig == wire' = <<Bang, Q>> \o MsgOf(origId)
Edit == /\ result = "unread" /\ edited < MaxEdits /\ (Subst \/ Delete \/ Truncate \/ Insert \/ SwapSig \/ SwapMsg \/ EmptySig)
        /\ edited' = edited + 1 /\ UNCHANGED <<readerKey, origKey, origId, loaded, result>>

\* ---- cookie_decode(wire, readerKey)
IndexOfQ(w) == IF \E i \in 1..Len(w) : w[i] = Q THEN CHOOSE i \in 1..Len(w) : w[i] = Q /\ \A j \in 1..(i - 1) : w[j] # Q ELSE 0
Read ==
  /\ result = "unread"
  /\ LET enc == wire # <<>> /\ wire[1] = Bang /\ IndexOfQ(wire) > 0
         q == IndexOfQ(wire)
         sig == SubSeq(wire, 2, q - 1)
         msg == SubSeq(wire, q + 1, Len(wire))
         good == enc /\ sig = Mac(readerKey, msg)          \* _lscmp: equal symbols AND equal length
     IN /\ loaded' = IF good THEN loaded \cup {msg} ELSE loaded
        /\ result' = IF good THEN "value" ELSE "absent"
  /\ UNCHANGED <<wire, readerKey, origKey, origId, edited>>
Next == Edit \/ Read
Spec == Init /\ [][Next]_vars

\* genuine: exactly a cookie the server issued under the reader's key (replaying one is allowed: not copy-protected)
Genuine == origKey = readerKey /\ \E id \in MsgIds : wire = Mint(readerKey, id)
\* a payload is deserialised only after its signature verified under the reader's key
LoadsOnlyVerified == \A m \in loaded : \E q \in 1..Len(wire) : wire[q] = Q /\ SubSeq(wire, 2, q - 1) = Mac(readerKey, m)
\* anything that is not the genuine cookie for this reader reads as absent and is never deserialised
ForgedAbsent == (result # "unread" /\ ~Genuine) => (result = "absent" /\ loaded = {})
RoundTrip == (result # "unread" /\ Genuine) => (result = "value" /\ \E id \in MsgIds : wire = Mint(readerKey, id) /\ loaded = {MsgOf(id)})
=============================================================================
