SPECIFICATION Spec
CONSTANTS
 SrcLen = 5
 MaxOps = 4
INVARIANT InWindow
INVARIANT OnlyWindowBytes
INVARIANT ReadIsContiguous
INVARIANT TellInRange
CHECK_DEADLOCK FALSE
