SPECIFICATION Spec
CONSTANTS
 ShortReads = TRUE
 Scenario = "cl"
 MaxData = 7
 MaxCL = 8
 Bufs = {1,2,3,8}
 MaxBodies <- MB_none
INVARIANT ClExact
INVARIANT ClNoOverRead
INVARIANT SizeLimit
INVARIANT Spooling
PROPERTY Progress
INVARIANT ClPrefix
PROPERTY NumRefines
CHECK_DEADLOCK FALSE
