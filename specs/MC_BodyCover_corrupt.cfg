SPECIFICATION CSpec
CONSTANTS
 ShortReads = TRUE
 Scenario = "corrupt"
 MaxData = 0
 MaxCL = 0
 Bufs = {6}
 MaxBodies <- MB_none
INVARIANT Emit
VIEW CView
CHECK_DEADLOCK FALSE
