-------------------------------- MODULE Query -------------------------------
(* C18: ombott/request_pkg/helpers.parse_qsl with its i / idx / c index      *)
(* arithmetic, '+' -> space, urllib's unquote (percent-decoding as UTF-8),   *)
(* and the list promotion of repeated keys (FormsDict filled through         *)
(* setitem), plus the reference statement                                     *)
(*     Parse(Encode(pairs)) = Collect(pairs)   for non-empty keys.           *)
(* Text is Seq(Nat) of code points.                                          *)
EXTENDS Text, TLC

REPL == 65533
\* ---- UTF-8 (arithmetic)
Utf8(cp) == IF cp < 128 THEN <<cp>>
            ELSE IF cp < 2048 THEN <<192 + (cp \div 64), 128 + (cp % 64)>>
            ELSE IF cp < 65536 THEN <<224 + (cp \div 4096), 128 + ((cp \div 64) % 64), 128 + (cp % 64)>>
            ELSE <<240 + (cp \div 262144), 128 + ((cp \div 4096) % 64), 128 + ((cp \div 64) % 64), 128 + (cp % 64)>>
Cont(b) == b \in 128..191
\* decode a byte sequence; invalid bytes become U+FFFD one at a time (exact for valid input, which is all the reference needs)
RECURSIVE Utf8Decode(_)
Utf8Decode(bs) ==
  IF bs = <<>> THEN <<>>
  ELSE LET b == Head(bs) IN
    IF b < 128 THEN <<b>> \o Utf8Decode(Tail(bs))
    ELSE IF b \in 194..223 /\ Len(bs) >= 2 /\ Cont(bs[2]) THEN <<((b - 192) * 64) + (bs[2] - 128)>> \o Utf8Decode(SubSeq(bs, 3, Len(bs)))
    ELSE IF b \in 224..239 /\ Len(bs) >= 3 /\ Cont(bs[2]) /\ Cont(bs[3])
         THEN <<((b - 224) * 4096) + ((bs[2] - 128) * 64) + (bs[3] - 128)>> \o Utf8Decode(SubSeq(bs, 4, Len(bs)))
    ELSE IF b \in 240..244 /\ Len(bs) >= 4 /\ Cont(bs[2]) /\ Cont(bs[3]) /\ Cont(bs[4])
         THEN <<((b - 240) * 262144) + ((bs[2] - 128) * 4096) + ((bs[3] - 128) * 64) + (bs[4] - 128)>> \o Utf8Decode(SubSeq(bs, 5, Len(bs)))
    ELSE <<REPL>> \o Utf8Decode(Tail(bs))
HexUp(n) == IF n < 10 THEN 48 + n ELSE 55 + n
PctByte(b) == <<PCT, HexUp(b \div 16), HexUp(b % 16)>>
Unreserved(c) == c \in 48..57 \/ c \in 65..90 \/ c \in 97..122 \/ c \in {95, 46, 45, 126}
\* urllib.parse.quote_plus of one code point
QuoteCp(c) == IF c = SP THEN <<PLUS>> ELSE IF Unreserved(c) THEN <<c>>
              ELSE LET bs == Utf8(c) IN Flatten([j \in 1..Len(bs) |-> PctByte(bs[j])])
QuotePlus(s) == Flatten([j \in 1..Len(s) |-> QuoteCp(s[j])])
\* urlencode(pairs)
RECURSIVE Encode(_)
Encode(pairs) == IF pairs = <<>> THEN <<>>
   ELSE QuotePlus(pairs[1][1]) \o <<EQ>> \o QuotePlus(pairs[1][2]) \o (IF Len(pairs) > 1 THEN <<AMP>> \o Encode(Tail(pairs)) ELSE <<>>)

\* ---- urllib.parse.unquote on one ASCII run: %XX -> byte, then bytes decoded as UTF-8
RECURSIVE PctBytes(_)
PctBytes(s) ==   \* unquote_to_bytes
  IF s = <<>> THEN <<>>
  ELSE IF Head(s) = PCT /\ Len(s) >= 3 /\ IsHex(s[2]) /\ IsHex(s[3]) THEN <<(HexVal(s[2]) * 16) + HexVal(s[3])>> \o PctBytes(SubSeq(s, 4, Len(s)))
  ELSE <<Head(s)>> \o PctBytes(Tail(s))
\* split into maximal ASCII / non-ASCII runs
RECURSIVE RunLen(_, _)
RunLen(s, ascii) == IF s # <<>> /\ ((Head(s) < 128) = ascii) THEN 1 + RunLen(Tail(s), ascii) ELSE 0
RECURSIVE Unquote(_)
Unquote(s) ==
  IF s = <<>> THEN <<>>
  ELSE IF ~Contains(s, PCT) THEN s
  ELSE IF Head(s) < 128 THEN LET n == RunLen(s, TRUE) IN Utf8Decode(PctBytes(SubSeq(s, 1, n))) \o Unquote(SubSeq(s, n + 1, Len(s)))
  ELSE LET n == RunLen(s, FALSE) IN SubSeq(s, 1, n) \o Unquote(SubSeq(s, n + 1, Len(s)))
PlusToSpace(s) == [j \in 1..Len(s) |-> IF s[j] = PLUS THEN SP ELSE s[j]]
Dec(s) == Unquote(PlusToSpace(s))

\* ---- parse_qsl: the scanner, one recursion per iteration of `while i < L`
\* the inner `for idx, c in enumerate(qs[i:])`: [idx, c] with c = 0 for "ran off the end" (for/else: idx += 1)
ScanTo(qs, i, stops) ==
  LET hits == {j \in (i + 1)..Len(qs) : qs[j] \in stops} IN
  IF hits = {} THEN [j |-> Len(qs), c |-> 0] ELSE [j |-> MinOf(hits) - 1, c |-> qs[MinOf(hits)]]   \* j 0-based end index
RECURSIVE ScanPairs(_, _, _)
ScanPairs(qs, i, steps) ==
  IF i >= Len(qs) THEN [pairs |-> <<>>, steps |-> steps]
  ELSE LET k == ScanTo(qs, i, {EQ, AMP})
           key == Slice(qs, i, k.j)
           i1 == k.j + 1 IN
    IF key = <<>> THEN ScanPairs(qs, i1, steps + 1)
    ELSE IF k.c = AMP THEN
       LET r == ScanPairs(qs, i1, steps + 1) IN [pairs |-> << <<Dec(key), <<>>>> >> \o r.pairs, steps |-> r.steps]
    ELSE LET v == ScanTo(qs, i1, {AMP})
             r == ScanPairs(qs, v.j + 1, steps + 1) IN
         [pairs |-> << <<Dec(key), Dec(Slice(qs, i1, v.j))>> >> \o r.pairs, steps |-> r.steps]
ParsePairs(qs) == ScanPairs(qs, 0, 0).pairs

\* ---- list promotion through setitem (_seen / _lists): result as <<key, isList, values>> in first-occurrence order
RECURSIVE Keys(_, _)
Keys(pairs, seen) == IF pairs = <<>> THEN <<>>
  ELSE IF pairs[1][1] \in seen THEN Keys(Tail(pairs), seen) ELSE <<pairs[1][1]>> \o Keys(Tail(pairs), seen \cup {pairs[1][1]})
ValsOf(pairs, k) == SelectSeq(pairs, LAMBDA p : p[1] = k)
Collect(pairs) ==
  LET ks == Keys(pairs, {}) IN
  [j \in 1..Len(ks) |-> LET vs == ValsOf(pairs, ks[j]) IN <<ks[j], Len(vs) > 1, [i \in 1..Len(vs) |-> vs[i][2]]>>]
ParseQsl(qs) == Collect(ParsePairs(qs))

\* property C18 (reference): every list of pairs with non-empty keys survives Encode / Parse
RoundTrip(pairs) == ParseQsl(Encode(pairs)) = Collect(pairs)
=============================================================================
