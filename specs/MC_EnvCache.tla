---------------------------- MODULE MC_EnvCache -----------------------------
EXTENDS EnvCache
View == <<env, cache>>
K_body == {"wsgi.input", "CONTENT_LENGTH", "CONTENT_TYPE", "QUERY_STRING"}
K_url == {"HTTP_HOST", "PATH_INFO", "SCRIPT_NAME", "QUERY_STRING"}
K_hdr == {"HTTP_COOKIE", "HTTP_ACCEPT", "HTTP_X_FORWARDED_FOR"}
\* the as-is table is incomplete exactly at StalePairs: every stale pair is reachable as an incoherent state, and nothing else is
StaleNow == {<<k, p>> \in Keys \X Props : cache[p] # None /\ k \in TransKeys(p) /\ cache[p][k] # env[k]}
OnlyKnownStale == StaleNow \subseteq StalePairs
ASSUME PrintT(<<"STALEPAIRS", StalePairs>>)
=============================================================================
