SPECIFICATION CSpec
CONSTANTS
 MaxOps = 14
 Universe <- U_t
 HookRules <- H_t
 Alphabet <- A_t
 ProbeLen = 0
 CheckNames = TRUE
INVARIANT EmitEnd
CHECK_DEADLOCK FALSE
