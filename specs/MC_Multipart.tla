---------------------------- MODULE MC_Multipart ----------------------------
(* C06: every division of a well-formed multipart body, or of any prefix of  *)
(* one, into consecutive chunks gives the result of parsing it in one piece. *)
(* Feed(k) cuts the next k bytes: TLC visits every division, with state      *)
(* merging on <<body, fed, carry state, markups>>.                           *)
EXTENDS Multipart
CONSTANTS MaxData, TwoParts
VARIABLES body, fed, mm
vars == <<body, fed, mm>>
x == 120
B == Boundary
Part(h, d) == <<HY, HY>> \o B \o CRLF \o h \o CRLFx2 \o d \o CRLF
Close == <<HY, HY>> \o B \o <<HY, HY>>
DataAlpha == {CR, LF, HY, x} \cup {Boundary[i] : i \in 1..Len(Boundary)}
NoToken(d) == \A i \in 0..Len(d) : Slice(d \o CRLF \o <<HY, HY>> \o B, i, i + TLen) # Token \/ i = Len(d)
Datas == {d \in SeqsUpTo(DataAlpha, MaxData) : NoToken(d)}
Hdr1 == <<72, COLON, 118>>                        \* H:v
Hdr2 == <<72, COLON, 118, CR, LF, 73, COLON, 119>> \* H:v CRLF I:w
Bodies1 == {Part(h, d) \o Close \o e : h \in {Hdr1, Hdr2}, d \in Datas, e \in {<<>>, CRLF, <<CR, LF, 101>>}}
Small == {d \in Datas : Len(d) <= 1}
Bodies2 == IF TwoParts THEN {Part(Hdr1, d1) \o Part(Hdr1, d2) \o Close \o CRLF : d1 \in Small, d2 \in Small} ELSE {}
Bodies0 == {Close, Close \o CRLF, CRLF \o Part(Hdr1, <<x>>) \o Close}
WellFormed == Bodies1 \cup Bodies2 \cup Bodies0
Prefixes(S) == UNION {{SubSeq(b, 1, n) : n \in 0..Len(b)} : b \in S}
Init == body \in Prefixes(WellFormed) /\ fed = 0 /\ mm = InitMM
Feed(k) == /\ fed + k <= Len(body)
           /\ mm' = ParseChunk(mm, SubSeq(body, fed + 1, fed + k))
           /\ fed' = fed + k /\ UNCHANGED body
Next == \E k \in 1..Len(body) : Feed(k)
Spec == Init /\ [][Next]_vars
OneShot(b) == IF b = <<>> THEN InitMM ELSE ParseChunk(InitMM, b)
SplitIndep == fed = Len(body) => (mm.markups = OneShot(body).markups /\ mm.error = OneShot(body).error)

\* Declarative reference for complete well-formed bodies: sections are the ranges between delimiters.
RECURSIVE RefParts(_, _, _)
RefParts(s, p, acc) ==
  IF Slice(s, p, p + 2) = <<HY, HY>> THEN [ok |-> TRUE, m |-> acc]
  ELSE IF Slice(s, p, p + 2) # CRLF THEN [ok |-> FALSE, m |-> acc]
  ELSE LET hs == p + 2
           he == FindFrom(s, CRLFx2, hs) IN
       IF he < 0 THEN [ok |-> FALSE, m |-> acc]
       ELSE LET ds == he + 4
                de == FindFrom(s, Token, ds) IN
            IF de < 0 THEN [ok |-> FALSE, m |-> acc]
            ELSE RefParts(s, de + TLen, acc \o << <<"headers", hs, he>>, <<"data", ds, de>> >>)
RefMarkups(s) ==
  IF StartsWith(s, BoundaryFull) THEN RefParts(s, Len(BoundaryFull), << <<"data", 0, 0>> >>)
  ELSE IF StartsWith(s, Token) THEN RefParts(s, TLen, << <<"data", 0, 0>> >>)
  ELSE [ok |-> FALSE, m |-> <<>>]
RefAgree == (fed = Len(body) /\ body \in WellFormed) =>
              (mm.error = "" /\ RefMarkups(body).ok /\ mm.markups = RefMarkups(body).m)
BoundaryB == <<66>>
BoundaryBx == <<66, 120>>
BoundaryHH == <<45, 45>>
BoundaryCRless == <<10, 66>>
=============================================================================
