SPECIFICATION Spec
CONSTANTS
 NTop = 2
 Data <- NoData
CONSTRAINT Bookkeeping
POSTCONDITION Report
CHECK_DEADLOCK FALSE
