---------------------------- MODULE BodyNumTrace ----------------------------
(* Trace validation of large Content-Length executions against the numeric   *)
(* abstraction BodyClNum.  The record carries numbers only: data length,     *)
(* the (ask, got) of every read, the final body length and `lcp`, the length *)
(* of the longest common prefix of the presented body and the stream data    *)
(* (measured by the harness; the judgement is made here).                    *)
EXTENDS BodyClNum, Sequences, TLC, Json, IOUtils, TLCExt
Traces == JsonDeserialize(IOEnv.TRACE_FILE)
VARIABLES tid, l
T == Traces[tid]
RECURSIVE AsksWithinCL(_, _, _, _)
AsksWithinCL(ev, i, got, lim) ==
  i > Len(ev) \/ (ev[i][1] <= lim - got /\ AsksWithinCL(ev, i + 1, got + ev[i][2], lim))
RECURSIVE GotTotal(_, _)
GotTotal(ev, i) == IF i > Len(ev) THEN 0 ELSE ev[i][2] + GotTotal(ev, i + 1)
PropFails(t) ==
  LET n == NMin(NMax(t.cl, 0), t.dataLen) IN
  (IF t.phase = "done" /\ ~(t.outLen = n /\ t.lcp = n) THEN {"ClExact"} ELSE {})
  \cup (IF ~AsksWithinCL(t.ev, 1, 0, NMax(t.cl, 0)) THEN {"ClNoOverRead"} ELSE {})
  \cup (IF t.phase \notin {"done", "e413"} THEN {"Outcome"} ELSE {})
  \cup (IF t.maxBody >= 0 /\ ((n > t.maxBody /\ t.phase # "e413")
                             \/ (n <= t.maxBody /\ t.phase # "done" /\ ~(t.cl > t.maxBody /\ t.phase = "e413"))) THEN {"LimitVerdict"} ELSE {})
  \cup (IF t.maxBody < 0 /\ t.phase = "e413" THEN {"LimitVerdict"} ELSE {})
  \cup (IF t.maxBody >= 0 /\ GotTotal(t.ev, 1) > t.maxBody + t.buf THEN {"ReadBound"} ELSE {})
  \cup (IF t.phase = "done" /\ (t.spooled # (t.outLen > t.buf)) THEN {"Spooling"} ELSE {})
TInit == /\ tid \in 1..Len(Traces) /\ l = 1
         /\ dataLen = Traces[tid].dataLen /\ cl = Traces[tid].cl /\ buf = Traces[tid].buf /\ maxBody = Traces[tid].maxBody
         /\ pos = 0 /\ rest = cl /\ phase = "loop" /\ outLen = 0 /\ spooled = FALSE /\ over = FALSE
TStep == /\ l <= Len(T.ev) /\ phase = "loop"
         /\ NAsk = T.ev[l][1]
         /\ NRead(T.ev[l][2])
         /\ l' = l + 1 /\ UNCHANGED tid
TSilent == l = Len(T.ev) + 1 /\ NFinish /\ UNCHANGED <<tid, l>>
TSpec == TInit /\ [][TStep \/ TSilent]_<<nvars, tid, l>>
MechOK == l = Len(T.ev) + 1 /\ phase \in {"done", "e413"} /\ phase = T.phase /\ (phase = "done" => (outLen = T.outLen /\ spooled = T.spooled))
Bookkeeping ==
  /\ (MechOK => TLCSet(1, TLCGet(1) \cup {tid}))
  /\ (l = 1 => LET f == PropFails(T) IN (f # {} => TLCSet(2, TLCGet(2) \cup {<<tid, c>> : c \in f})))
ASSUME TLCSet(1, {}) /\ TLCSet(2, {})
Report == /\ PrintT(<<"MECH_MISSING", ToJson((1..Len(Traces)) \ TLCGet(1))>>)
          /\ PrintT(<<"PROP_FAILS", ToJson(TLCGet(2))>>)
=============================================================================
