--------------------------- MODULE RuleParserTrace --------------------------
(* Records of the real Route.parse_rule: text (without the leading '/'), ok,  *)
(* pat, names ("" = anonymous), fkeys ([] for a plain wildcard), and for      *)
(* rendered rules `want` = the abstract rule the text was rendered from.      *)
EXTENDS RuleParser, Json, IOUtils, TLCExt
Traces == JsonDeserialize(IOEnv.TRACE_FILE)
VARIABLE tid
T == Traces[tid]
PropFails(t) ==
  IF t.kind = "rendered" /\ ~(t.ok /\ t.pat = t.want.pat /\ t.names = t.want.names /\ t.fkeys = t.want.fkeys) THEN {"FlavourEquiv"} ELSE {}
MechOK(t) == LET r == ParseRule(t.text) IN r.ok = t.ok /\ (t.ok => (r.pat = t.pat /\ r.names = t.names /\ r.fkeys = t.fkeys))
Init == tid \in 1..Len(Traces)
Next == UNCHANGED tid
Spec == Init /\ [][Next]_tid
Bookkeeping ==
  /\ (MechOK(T) => TLCSet(1, TLCGet(1) \cup {tid}))
  /\ LET f == PropFails(T) IN (f # {} => TLCSet(2, TLCGet(2) \cup {<<tid, c>> : c \in f}))
ASSUME TLCSet(1, {}) /\ TLCSet(2, {})
Report == /\ PrintT(<<"MECH_MISSING", ToJson((1..Len(Traces)) \ TLCGet(1))>>)
          /\ PrintT(<<"PROP_FAILS", ToJson(TLCGet(2))>>)
=============================================================================
