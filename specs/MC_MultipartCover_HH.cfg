SPECIFICATION CSpec
CONSTANTS
 Boundary <- BoundaryHH
 MaxData = 3
 TwoParts = FALSE
INVARIANT Emit
VIEW CView
CHECK_DEADLOCK FALSE
