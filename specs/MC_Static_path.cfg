SPECIFICATION Spec
CONSTANTS
 HdrLen = 4
 MaxL = 6
 Scenario = "path"
INVARIANT RangeInv
INVARIANT ChunkInv
INVARIANT PathInv
CHECK_DEADLOCK FALSE
