SPECIFICATION Spec
CONSTANTS PayLen = 3
INVARIANT Safe
INVARIANT InertInv
INVARIANT FormatInert
CHECK_DEADLOCK FALSE
