-------------------------------- MODULE MC_Url ------------------------------
EXTENDS Url
CONSTANTS ProbeLen
VARIABLES rule, path
a == 97  b == 98  e == 101  p == 112  one == 49  zero == 48  dot == 46
R(pat, f) == [pat |-> pat, filters |-> f]
Rules == {
  R(<<a, SEP, TOKEN>>, <<None>>), R(<<a, SEP, TOKEN, SEP, b>>, <<None>>), R(<<TOKEN, TOKEN>>, <<"int(None)", None>>),
  R(<<a, TOKEN, b>>, <<"re([a-z]+)">>), R(<<TOKEN, SEP, TOKEN>>, <<"int(None)", "float(None)">>), R(<<p, SEP, TOKEN, SEP, e>>, <<"path(/e)">>),
  R(<<p, SEP, TOKEN>>, <<"path()">>), R(<<TOKEN, e>>, <<"path(e)">>), R(<<a, b>>, <<>>), R(<<TOKEN, b, TOKEN>>, <<"float(None)", "int(None)">>),
  R(<<a, SEP, TOKEN, SEP, TOKEN>>, <<"re(to.)", None>>),
  R(<<TOKEN, TOKEN, SEP, e>>, <<"int(None)", "re([a-z]+)">>)
}
Alpha == {a, b, e, p, SEP, one, zero, dot, HY, 116, 111}
Init == rule \in Rules /\ path \in {x \in SeqsUpTo(Alpha, ProbeLen) : x = <<>> \/ (x[1] # SEP /\ x[Len(x)] # SEP)}
Next == UNCHANGED <<rule, path>>
Spec == Init /\ [][Next]_<<rule, path>>
UrlInv == RoundTripUrl(rule, path)
\* vacuity guard: some probes do match
SomeMatch == ~RefMatch(rule, path).ok
=============================================================================
