------------------------------ MODULE WsgiTrace -----------------------------
(* Records of real requests served by Ombott.__call__ under                   *)
(* wsgiref.validate: the handler program and environment (as in Wsgi.tla)     *)
(* and the observation obs = [sr, status, cl, sent, closes, hooks, escaped,   *)
(* wf].                                                                       *)
EXTENDS Wsgi, Json, IOUtils, TLCExt
Traces == JsonDeserialize(IOEnv.TRACE_FILE)
VARIABLE tid
T == Traces[tid]
Set(seq) == {seq[i] : i \in 1..Len(seq)}
EnvOf(e) == [method |-> e.method, fw |-> e.fw, routing |-> e.routing, nb |-> e.nb, failAt |-> e.failAt, na |-> e.na, errh |-> e.errh,
             errcodes |-> IF e.errh = "none" THEN {} ELSE {404, 500}]
CloseCount(obs, id) == IF \E i \in 1..Len(obs.closes) : obs.closes[i][1] = id
                       THEN obs.closes[CHOOSE i \in 1..Len(obs.closes) : obs.closes[i][1] = id][2] ELSE 0
PropFails(t) ==
  LET env == EnvOf(t.env)  o == t.obs
      h == Handled(t.prog, env)
      f == Forwarded(h.out, 8) IN
  (IF o.escaped \/ o.sr # 1 THEN {"OneStartResponse"} ELSE {})
  \cup (IF ~o.escaped /\ ~o.wf THEN {"WellFormed"} ELSE {})
  \cup (IF ~o.escaped /\ o.cl >= 0 /\ MayCarryBody(o.status, env.method) /\ o.cl # o.sent THEN {"ContentLength"} ELSE {})
  \cup (IF ~o.escaped /\ ~MayCarryBody(o.status, env.method) /\ o.sent # 0 THEN {"NoBody"} ELSE {})
  \cup (IF ~o.escaped /\ f # 0 /\ CloseCount(o, f) # 1 /\ ~(h.out.t = "err") THEN {"ClosedOnce"} ELSE {})
  \cup (IF \E i \in 1..Len(o.closes) : o.closes[i][2] > 1 THEN {"ClosedOnce"} ELSE {})
  \cup (IF ~o.escaped /\ h.failed /\ o.status # 500 THEN {"Failure500"} ELSE {})
  \cup (IF o.hooks # [i \in 1..Len(HookLog(env)) |-> <<HookLog(env)[i][1], HookLog(env)[i][2]>>] THEN {"HookOrder"} ELSE {})
MechOK(t) ==
  LET env == EnvOf(t.env)  o == t.obs  r == Run(t.prog, env) IN
  /\ ~o.escaped /\ o.sr = r.sr /\ o.status = r.status
  /\ (r.body = "fixed" => o.sent = r.sent)
  /\ (r.cl >= 0 => o.cl = r.cl) /\ (r.cl = NoneI => o.cl = -1)
  /\ (r.closedId # 0 => CloseCount(o, r.closedId) = r.closed)
Init == tid \in 1..Len(Traces)
Next == UNCHANGED tid
Spec == Init /\ [][Next]_tid
Bookkeeping ==
  /\ (MechOK(T) => TLCSet(1, TLCGet(1) \cup {tid}))
  /\ LET f == PropFails(T) IN (f # {} => TLCSet(2, TLCGet(2) \cup {<<tid, c>> : c \in f}))
ASSUME TLCSet(1, {}) /\ TLCSet(2, {})
Report == /\ PrintT(<<"MECH_MISSING", ToJson((1..Len(Traces)) \ TLCGet(1))>>)
          /\ PrintT(<<"PROP_FAILS", ToJson(TLCGet(2))>>)
=============================================================================
