SPECIFICATION TSpec
CONSTANTS
 MaxOps = 0
 Universe <- NoRules
 HookRules <- NoRules
 Alphabet <- NoAlpha
 ProbeLen = 0
 CheckNames = FALSE
CONSTRAINT Bookkeeping
POSTCONDITION Report
CHECK_DEADLOCK FALSE
