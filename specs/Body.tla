------------------------------- MODULE Body --------------------------------
(* Implementation-shaped model of ombott/request_pkg/body_mixin.py:          *)
(*   _iter_body, _iter_chunked, _body_read                                   *)
(* one action per call of wsgi.input.read().  The environment decides how    *)
(* many bytes each read returns (ShortReads), so TLC visits every read       *)
(* fragmentation.  Property-level statements (C04, C05, C13) are at the end; *)
(* they are phrased against BodyAbs-style reference definitions              *)
(* (RefDecode / first Content-Length bytes), not against this machine.       *)
EXTENDS Text, TLC

CONSTANTS ShortReads      \* TRUE: a read may return fewer bytes than asked

VARIABLES
  mode,      \* "cl" | "chunked"
  inp,       \* bytes the stream will deliver (Seq of 0..255, or positions in cl mode)
  cl,        \* Content-Length (-1 = absent)
  buf,       \* buffer size = config.max_memfile_size
  maxBody,   \* config.max_body_size, -1 = None
  pos,       \* bytes consumed from the stream
  phase,     \* "loop" | "size" | "data" | "crlf" | "crlf1" | "crlf1x" | "done" | "e400" | "e413"
  rest,      \* rest_len
  seenR, seenSem, hdr, readLen,    \* size-line scanner of _iter_chunked
  out,       \* bytes written to the body so far
  spooled,   \* body moved to a TemporaryFile
  over       \* some read asked for more than Content-Length allows

vars == <<mode, inp, cl, buf, maxBody, pos, phase, rest, seenR, seenSem, hdr, readLen, out, spooled, over>>

-----------------------------------------------------------------------------
\* Python int(b, 16) on bytes: optional blanks, sign, 0x prefix, single underscores
RECURSIVE HexDigits(_, _, _)
HexDigits(s, acc, prevUS) ==
  IF s = <<>> THEN (IF prevUS THEN -1 ELSE acc)
  ELSE IF Head(s) = US THEN (IF prevUS THEN -1 ELSE HexDigits(Tail(s), acc, TRUE))
  ELSE IF HexVal(Head(s)) < 0 THEN -1
  ELSE HexDigits(Tail(s), IF acc >= 16777216 THEN 16777216 ELSE acc * 16 + HexVal(Head(s)), FALSE)     \* saturating (32-bit TLC integers)
ParseHex(raw) ==
  LET s0 == Strip(raw)
      neg == s0 # <<>> /\ Head(s0) = HY
      s1 == IF s0 # <<>> /\ Head(s0) \in {HY, PLUS} THEN Tail(s0) ELSE s0
      pre == Len(s1) >= 2 /\ s1[1] = ZERO /\ s1[2] \in {120, 88}
      s2 == IF pre THEN SubSeq(s1, 3, Len(s1)) ELSE s1
      s3 == IF pre /\ s2 # <<>> /\ Head(s2) = US THEN Tail(s2) ELSE s2
      ok0 == s3 # <<>> /\ Head(s3) # US
      v == IF ok0 THEN HexDigits(s3, 0, FALSE) ELSE -1
  IN IF v < 0 THEN [ok |-> FALSE, v |-> 0] ELSE [ok |-> TRUE, v |-> IF neg THEN 0 - v ELSE v]

Avail == Len(inp) - pos
\* what a read(n) may return: k bytes, k = 0 only at EOF (or n = 0)
Ks(n) == IF n <= 0 THEN {0}
         ELSE IF ShortReads THEN {k \in 0..Min2(n, Avail) : (k = 0) => (Avail = 0)}
         ELSE {Min2(n, Avail)}
Got(k) == SubSeq(inp, pos + 1, pos + k)

\* _body_read: body.write(part); size check; spill to a temporary file
Deliver(part, nextPhase) ==
  LET o2 == out \o part IN
  /\ out' = o2
  /\ IF maxBody >= 0 /\ Len(o2) > maxBody
     THEN phase' = "e413" /\ spooled' = spooled
     ELSE phase' = nextPhase /\ spooled' = (spooled \/ Len(o2) > buf)

\* ---- _iter_body (Content-Length framing)
ClRead ==
  /\ phase = "loop" /\ rest > 0
  /\ LET ask == Min2(rest, buf) IN
     \E k \in Ks(ask) :
       /\ pos' = pos + k
       /\ over' = (over \/ ask > cl - pos)
       /\ IF k = 0 THEN /\ phase' = "done" /\ UNCHANGED <<rest, out, spooled>>
          ELSE /\ rest' = rest - k                \* fixed accounting: received, not requested
               /\ Deliver(Got(k), IF rest - k > 0 THEN "loop" ELSE "done")
  /\ UNCHANGED <<mode, inp, cl, buf, maxBody, seenR, seenSem, hdr, readLen>>
ClFinish ==
  /\ phase = "loop" /\ rest <= 0 /\ phase' = "done"
  /\ UNCHANGED <<mode, inp, cl, buf, maxBody, pos, rest, seenR, seenSem, hdr, readLen, out, spooled, over>>

\* ---- _iter_chunked
SizeStep ==
  /\ phase = "size"
  /\ \E k \in Ks(1) :
     LET c == Got(k) IN
     /\ pos' = pos + k
     /\ IF c = <<>> \/ readLen + 1 > buf
        THEN phase' = "e400" /\ UNCHANGED <<seenR, seenSem, hdr, readLen, rest>>
        ELSE IF seenR /\ c = <<LF>> THEN
           LET p == ParseHex(hdr) IN
           /\ IF ~p.ok THEN phase' = "e400" /\ rest' = rest
              ELSE IF p.v = 0 THEN phase' = "done" /\ rest' = 0
              ELSE IF p.v < 0 THEN phase' = "crlf" /\ rest' = p.v
              ELSE phase' = "data" /\ rest' = p.v
           /\ hdr' = <<>> /\ readLen' = 0 /\ seenR' = FALSE /\ seenSem' = FALSE
        ELSE /\ readLen' = readLen + 1
             /\ seenR' = (c = <<CR>>)
             /\ IF seenSem THEN UNCHANGED <<seenSem, hdr>>
                ELSE /\ seenSem' = (c = <<SEMI>>)
                     /\ hdr' = IF c = <<CR>> \/ c = <<SEMI>> THEN hdr ELSE hdr \o c
             /\ UNCHANGED <<phase, rest>>
  /\ UNCHANGED <<mode, inp, cl, buf, maxBody, out, spooled, over>>
DataStep ==
  /\ phase = "data"
  /\ LET ask == Min2(rest, buf) IN
     \E k \in Ks(ask) :
       /\ pos' = pos + k
       /\ IF k = 0 THEN phase' = "e400" /\ UNCHANGED <<rest, out, spooled>>
          ELSE /\ rest' = rest - k
               /\ Deliver(Got(k), IF rest - k > 0 THEN "data" ELSE "crlf")
  /\ UNCHANGED <<mode, inp, cl, buf, maxBody, seenR, seenSem, hdr, readLen, over>>
\* the CRLF after the chunk data: read(2); a single byte is completed by read(1)
CrlfStep ==
  /\ phase = "crlf"
  /\ \E k \in Ks(2) :
       /\ pos' = pos + k
       /\ phase' = IF k = 2 THEN (IF Got(2) = <<CR, LF>> THEN "size" ELSE "e400")
                   ELSE IF k = 1 THEN (IF Got(1) = <<CR>> THEN "crlf1" ELSE "crlf1x")   \* the code reads the second byte first, then compares
                   ELSE "e400"
  /\ UNCHANGED <<mode, inp, cl, buf, maxBody, rest, seenR, seenSem, hdr, readLen, out, spooled, over>>
Crlf1Step ==
  /\ phase \in {"crlf1", "crlf1x"}
  /\ \E k \in Ks(1) :
       /\ pos' = pos + k
       /\ phase' = IF phase = "crlf1" /\ k = 1 /\ Got(1) = <<LF>> THEN "size" ELSE "e400"
  /\ UNCHANGED <<mode, inp, cl, buf, maxBody, rest, seenR, seenSem, hdr, readLen, out, spooled, over>>

Next == ClRead \/ ClFinish \/ SizeStep \/ DataStep \/ CrlfStep \/ Crlf1Step

InitReader(m, i, c, b, mb) ==
  /\ mode = m /\ inp = i /\ cl = c /\ buf = b /\ maxBody = mb
  /\ pos = 0 /\ phase = (IF m = "cl" THEN "loop" ELSE "size") /\ rest = (IF m = "cl" THEN c ELSE 0)
  /\ seenR = FALSE /\ seenSem = FALSE /\ hdr = <<>> /\ readLen = 0
  /\ out = <<>> /\ spooled = FALSE /\ over = FALSE

Terminal == phase \in {"done", "e400", "e413"}

-----------------------------------------------------------------------------
(* Reference semantics (BodyAbs): an RFC 7230 chunked decoder written         *)
(* declaratively, independent of the scanner above.                          *)
\* [st |-> "ok", pay |-> bytes, endpos |-> p]  |  [st |-> "trunc"] | [st |-> "bad"] | [st |-> "nocrlf"]
RECURSIVE AllHex(_)
AllHex(s) == s = <<>> \/ (IsHex(Head(s)) /\ AllHex(Tail(s)))
RECURSIVE HexNum(_, _)
\* (saturating at 2^24: TLC integers are 32 bit; no body in any check is that long, so any larger size means "more than there is")
HexNum(s, acc) == IF s = <<>> THEN acc ELSE HexNum(Tail(s), IF acc >= 16777216 THEN 16777216 ELSE acc * 16 + HexVal(Head(s)))
RECURSIVE RefChunks(_, _, _)
RefChunks(s, p, acc) ==
  LET e == FindFrom(s, <<CR, LF>>, p) IN
  IF e < 0 THEN [st |-> "trunc"]
  ELSE LET line == Slice(s, p, e)
           semi == IndexOf(line, SEMI)
           sz == IF semi < 0 THEN line ELSE Slice(line, 0, semi) IN
       IF sz = <<>> \/ ~AllHex(sz) THEN [st |-> "bad"]
       ELSE LET n == HexNum(sz, 0)  d == e + 2 IN
         IF n = 0 THEN [st |-> "ok", pay |-> acc, endpos |-> d]
         ELSE IF d + n + 2 > Len(s) THEN [st |-> "trunc"]
         ELSE IF Slice(s, d + n, d + n + 2) # <<CR, LF>> THEN [st |-> "nocrlf"]
         ELSE RefChunks(s, d + n + 2, acc \o Slice(s, d, d + n))
RefDecode(s) == RefChunks(s, 0, <<>>)

\* ---- property-level invariants
\* C04: the body is exactly the first Content-Length bytes delivered; never read beyond it
ClExact == (mode = "cl" /\ phase = "done") => out = SubSeq(inp, 1, Min2(Max2(cl, 0), Len(inp)))
ClNoOverRead == mode = "cl" => (~over /\ pos <= Max2(cl, 0))
\* C13 (both framings): over the limit => 413 after at most limit + one buffer; within => no 413
SizeLimit ==
  /\ (maxBody >= 0) => Len(out) <= maxBody + buf
  /\ (phase = "e413") => (maxBody >= 0 /\ Len(out) > maxBody)
  /\ (phase = "done" /\ maxBody >= 0) => Len(out) <= maxBody
Spooling == (phase = "done") => (spooled <=> Len(out) > buf)
=============================================================================
