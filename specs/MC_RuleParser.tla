---------------------------- MODULE MC_RuleParser ---------------------------
(* Flavour equivalence: every way of writing an abstract rule parses back to  *)
(* it.  An abstract rule is a sequence of segments: literal text or a         *)
(* wildcard [name, filter, args].                                             *)
EXTENDS RuleParser
VARIABLES rule, text
vars == <<rule, text>>
a == 97  b == 98  x == 120  y == 121
INTW == <<105, 110, 116>>  FLOATW == <<102, 108, 111, 97, 116>>  REW == <<114, 101>>
W(name, filter, args, hasargs) == [lit |-> <<>>, name |-> name, filter |-> filter, args |-> args, hasargs |-> hasargs]
L(t) == [lit |-> t, name |-> <<>>, filter |-> <<>>, args |-> <<>>, hasargs |-> FALSE]
IsW(seg) == seg.lit = <<>>
Wilds == { W(<<x>>, <<>>, <<>>, FALSE), W(<<>>, <<>>, <<>>, FALSE), W(<<y, 49>>, INTW, <<>>, FALSE), W(<<>>, INTW, <<>>, FALSE),
           W(<<x>>, FLOATW, <<>>, FALSE), W(<<x>>, REW, <<116, 111, 46>>, TRUE), W(<<>>, REW, <<91, 97, 45, 122, 93, 43>>, TRUE),
           W(<<x>>, PATHW, <<>>, TRUE), W(<<>>, PATHW, <<>>, TRUE), W(<<x>>, REW, <<LP, a, RP>>, TRUE) }
Lits == { <<a>>, <<a, SLASH>>, <<SLASH, b>>, <<SLASH>>, <<a, 46, b>> }
Rules == {<<L(l)>> : l \in Lits} \cup {<<w>> : w \in Wilds} \cup {<<L(l), w>> : l \in Lits, w \in Wilds}
         \cup {<<w, L(l)>> : w \in Wilds, l \in Lits} \cup {<<L(l), w, L(m)>> : l \in {<<a, SLASH>>}, w \in Wilds, m \in Lits}
         \* (a path wildcard directly followed by another wildcard takes the rest of the rule TEXT as its argument: not flavour independent, excluded)
         \cup {<<w, v>> : w \in {z \in Wilds : z.filter # PATHW}, v \in {W(<<y, 49>>, INTW, <<>>, FALSE), W(<<x>>, <<>>, <<>>, FALSE)}}
\* all texts for one wildcard, given what follows it (nxt = -1 at the end)
WTexts(w, nxt) ==
  LET n == w.name  f == w.filter  g == w.args
      Br(o, inner) == <<o>> \o inner \o <<Close(o)>>
      plain == IF f # <<>> THEN {}
               ELSE (IF n # <<>> THEN {Br(LTc, n), Br(LBc, n)} \cup (IF nxt \in {-1, SLASH} THEN {<<COLON>> \o n} ELSE {})
                     ELSE (IF nxt = -1 THEN {<<COLON>>} ELSE {}))
      noargs == IF f = <<>> \/ (w.hasargs /\ f # PATHW) THEN {}
                ELSE (IF n # <<>> THEN UNION {{Br(o, n \o <<COLON>> \o f), Br(o, n \o <<DOTc>> \o f)} : o \in {LTc, LBc}}
                      ELSE {Br(o, <<COLON>> \o f) : o \in {LTc, LBc}})
      withargs == IF f = <<>> \/ ~w.hasargs \/ f = PATHW THEN {}
                ELSE (IF n # <<>> THEN UNION {{Br(o, n \o <<DOTc>> \o f \o <<LP>> \o g \o <<RP>>), Br(o, n \o <<COLON>> \o f \o <<LP>> \o g \o <<RP>>)} : o \in {LTc, LBc}}
                                       \cup (IF ~Contains(g, GTc) THEN {Br(LTc, n \o <<COLON>> \o f \o <<COLON>> \o g)} ELSE {})
                      ELSE UNION {{Br(o, f \o <<LP>> \o g \o <<RP>>), Br(o, <<COLON>> \o f \o <<LP>> \o g \o <<RP>>)} : o \in {LTc, LBc}}
                           \cup (IF ~Contains(g, GTc) THEN {Br(LTc, <<COLON>> \o f \o <<COLON>> \o g)} ELSE {}))
      pathparen == IF f = PATHW THEN (IF n # <<>> THEN {Br(LBc, n \o <<DOTc>> \o f \o <<LP, RP>>)} ELSE {Br(LBc, f \o <<LP, RP>>)}) ELSE {}
  IN plain \cup noargs \cup withargs \cup pathparen
FirstChar(seg) == IF IsW(seg) THEN LTc ELSE seg.lit[1]
RECURSIVE Texts(_)
Texts(r) == IF r = <<>> THEN {<<>>}
  ELSE LET nxt == IF Len(r) = 1 THEN -1 ELSE FirstChar(r[2]) IN
       IF IsW(r[1]) THEN {t \o u : t \in WTexts(r[1], nxt), u \in Texts(Tail(r))}
       ELSE {r[1].lit \o u : u \in Texts(Tail(r))}
\* what the rule means: pattern, names, fkeys (the path filter's argument is the literal that follows it)
RECURSIVE Meaning(_, _, _, _)
Meaning(r, pat, names, fkeys) ==
  IF r = <<>> THEN [ok |-> TRUE, pat |-> pat, names |-> names, fkeys |-> fkeys]
  ELSE IF IsW(r[1]) THEN
     LET w == r[1]
         tail == IF Len(r) > 1 /\ ~IsW(r[2]) THEN r[2].lit ELSE <<>>
         fk == IF w.filter = <<>> THEN <<>> ELSE IF w.filter = PATHW THEN FKey(PATHW, tail, TRUE) ELSE FKey(w.filter, w.args, w.hasargs) IN
     Meaning(Tail(r), Append(pat, TOKEN), Append(names, w.name), Append(fkeys, fk))
  ELSE Meaning(Tail(r), pat \o r[1].lit, names, fkeys)
\* two adjacent literals would be one literal; a literal must not contain a param token
WellFormed(r) == \A i \in 1..Len(r) : (~IsW(r[i]) => (\A j \in 1..Len(r[i].lit) : ~ParamTok(r[i].lit[j])) /\ (i = Len(r) \/ IsW(r[i + 1])))
Init == rule \in {r \in Rules : WellFormed(r)} /\ text \in Texts(rule)
Next == UNCHANGED vars
Spec == Init /\ [][Next]_vars
FlavourEquiv == ParseRule(text) = Meaning(rule, <<>>, <<>>, <<>>)
=============================================================================
