SPECIFICATION Spec
CONSTANTS
 MaxLen = 4
INVARIANT W_script
CHECK_DEADLOCK FALSE
