SPECIFICATION Spec
CONSTANTS
 Boundary <- BoundaryBx
 MaxData = 2
 TwoParts = TRUE
INVARIANT SplitIndep
INVARIANT RefAgree
CHECK_DEADLOCK FALSE
