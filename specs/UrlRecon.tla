------------------------------ MODULE UrlRecon ------------------------------
(* Beyond the listed properties: how a Request reconstructs where it was     *)
(* asked -- script_name, path, fullpath (request_pkg/props_mixin.py) -- from  *)
(* SCRIPT_NAME / X-Script-Name, PATH_INFO and the application-name header    *)
(* that Ombott.wsgi sets when the domain_map option prefixes the path.       *)
(* Mechanism: the three properties transcribed, including urllib's urljoin   *)
(* (CPython 3.12) for the only shape of arguments fullpath gives it: a base  *)
(* that is a script name ('/', '/x/', '//') and a reference that does not    *)
(* begin with a slash.  Reference: the URL reconstruction of PEP 3333 --     *)
(* script name, then the path as it was sent, nothing interpreted.           *)
(* Text is Seq(Nat); the model alphabet has no ';', brackets or control      *)
(* characters (urlsplit treats those specially; named omission).             *)
EXTENDS Text, TLC
DOTc == 46  QM == 63  HASH == 35
IsAlphaC(c) == c \in 65..90 \/ c \in 97..122
SchemeChar(c) == IsAlphaC(c) \/ IsDigit(c) \/ c \in {43, 45, 46}
RECURSIVE SplitC(_, _)
SplitC(s, c) == LET i == IndexOf(s, c) IN
  IF i < 0 THEN <<s>> ELSE <<SubSeq(s, 1, i)>> \o SplitC(SubSeq(s, i + 2, Len(s)), c)
RECURSIVE JoinC(_, _)
JoinC(ss, c) == IF ss = <<>> THEN <<>> ELSE IF Len(ss) = 1 THEN ss[1] ELSE ss[1] \o <<c>> \o JoinC(Tail(ss), c)

\* ---- PropsMixin.script_name: SCRIPT_NAME, else (when allowed) X-Script-Name; tested for emptiness BEFORE the slashes are stripped
ScriptName(sn, xsn, allowX) ==
  LET s == IF sn = <<>> /\ allowX THEN xsn ELSE sn IN
  IF s # <<>> THEN <<SLASH>> \o StripC(s, SLASH) \o <<SLASH>> ELSE <<SLASH>>
\* ---- PropsMixin.path
PathOf(pi) == <<SLASH>> \o LStripC(pi, SLASH)

\* ---- urllib.parse.urljoin(base, u), base a script name, u not starting with '/'
HasScheme(u) == LET i == IndexOf(u, COLON) IN i > 0 /\ IsAlphaC(u[1]) /\ \A j \in 1..i : SchemeChar(u[j])
BasePath(b) == IF b = <<SLASH, SLASH>> THEN <<>> ELSE b        \* urlsplit('//') = empty netloc, empty path
RECURSIVE Resolve(_, _)
Resolve(segs, acc) ==
  IF segs = <<>> THEN acc
  ELSE LET s == Head(segs) IN
       IF s = <<DOTc, DOTc>> THEN Resolve(Tail(segs), IF acc = <<>> THEN acc ELSE SubSeq(acc, 1, Len(acc) - 1))
       ELSE IF s = <<DOTc>> THEN Resolve(Tail(segs), acc)
       ELSE Resolve(Tail(segs), Append(acc, s))
UrlJoin(b, u) ==
  IF u = <<>> THEN b
  ELSE IF HasScheme(u) THEN u                                  \* "another scheme": the reference is returned as it is
  ELSE
    LET hi == IndexOf(u, HASH)
        frag == IF hi < 0 THEN <<>> ELSE SubSeq(u, hi + 2, Len(u))
        u1 == IF hi < 0 THEN u ELSE SubSeq(u, 1, hi)
        qi == IndexOf(u1, QM)
        query == IF qi < 0 THEN <<>> ELSE SubSeq(u1, qi + 2, Len(u1))
        path == IF qi < 0 THEN u1 ELSE SubSeq(u1, 1, qi)
        tail == (IF query # <<>> THEN <<QM>> \o query ELSE <<>>) \o (IF frag # <<>> THEN <<HASH>> \o frag ELSE <<>>)
        bp == BasePath(b)
    IN IF path = <<>> THEN bp \o tail
       ELSE LET bparts0 == SplitC(bp, SLASH)
                bparts == IF bparts0[Len(bparts0)] # <<>> THEN SubSeq(bparts0, 1, Len(bparts0) - 1) ELSE bparts0
                segs0 == bparts \o SplitC(path, SLASH)
                n == Len(segs0)
                mid == SelectSeq(SubSeq(segs0, 2, n - 1), LAMBDA s : s # <<>>)
                segs == IF n <= 2 THEN segs0 ELSE <<segs0[1]>> \o mid \o <<segs0[n]>>
                res0 == Resolve(segs, <<>>)
                res == IF segs[Len(segs)] \in {<<DOTc>>, <<DOTc, DOTc>>} THEN Append(res0, <<>>) ELSE res0
                joined == JoinC(res, SLASH)
            IN (IF joined = <<>> THEN <<SLASH>> ELSE joined) \o tail

\* ---- PropsMixin.fullpath: the application name is cut off by its LENGTH
DropN(s, n) == IF n >= Len(s) THEN <<>> ELSE SubSeq(s, n + 1, Len(s))
FullPath(sn, xsn, allowX, pi, appname) ==
  UrlJoin(ScriptName(sn, xsn, allowX), LStripC(DropN(PathOf(pi), Len(appname)), SLASH))

\* ---- reference: PEP 3333, script name then the path as sent
RefScript(sn, xsn, allowX) ==
  LET s == StripC(IF sn = <<>> /\ allowX THEN xsn ELSE sn, SLASH) IN
  IF s = <<>> THEN <<SLASH>> ELSE <<SLASH>> \o s \o <<SLASH>>
RefFull(sn, xsn, allowX, pi) == RefScript(sn, xsn, allowX) \o LStripC(pi, SLASH)

\* ---- the classes of request for which the mechanism is NOT the reference (the first five found by TLC on the model)
Segs(pi) == SplitC(LStripC(pi, SLASH), SLASH)
Classes(sn, xsn, allowX, pi) ==
  LET p == LStripC(pi, SLASH)
      sg == SplitC(p, SLASH)
      eff == IF sn = <<>> /\ allowX THEN xsn ELSE sn IN
  (IF HasScheme(p) THEN {"scheme"} ELSE {})
  \cup (IF \E i \in 1..Len(sg) : sg[i] \in {<<DOTc>>, <<DOTc, DOTc>>} THEN {"dot-segment"} ELSE {})
  \cup (IF \E i \in 1..(Len(sg) - 1) : sg[i] = <<>> THEN {"empty-segment"} ELSE {})
  \cup (IF Contains(p, QM) \/ Contains(p, HASH) THEN {"query-or-fragment-mark"} ELSE {})
  \cup (IF eff # <<>> /\ StripC(eff, SLASH) = <<>> THEN {"slash-only-script-name"} ELSE {})
  \* two more classes, outside the model alphabet, that trace validation of real requests brought up (urlsplit drops them):
  \cup (IF p # <<>> /\ p[1] <= 32 THEN {"leading-space-or-control"} ELSE {})
  \cup (IF \E i \in 1..Len(p) : p[i] \in {9, 10, 13} THEN {"tab-or-newline"} ELSE {})
=============================================================================
