SPECIFICATION Spec
CONSTANTS
 MaxLen = 5
INVARIANT OnlyKnownDeviations
INVARIANT MountInvisible
CHECK_DEADLOCK FALSE
