SPECIFICATION CSpec
CONSTANTS
 Boundary <- BoundaryB
 MaxData = 2
 TwoParts = FALSE
INVARIANT Emit
VIEW CView
CHECK_DEADLOCK FALSE
