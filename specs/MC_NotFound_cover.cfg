SPECIFICATION NSpec
CONSTANTS
 MaxOps = 4
 Universe <- U_q
 HookRules <- H_q
 Alphabet <- A_q
 ProbeLen = 2
 CheckNames = TRUE
CONSTRAINT Depth
INVARIANT Emit
VIEW NView
CHECK_DEADLOCK FALSE
