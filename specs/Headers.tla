------------------------------- MODULE Headers ------------------------------
(* C14: response header values (common_helpers._hval, HeaderDict,             *)
(* HeaderProperty, BaseResponse.__init__ / headerlist).                        *)
(* The store is the ordered dict of a response: a sequence of                  *)
(* [name, vals] where vals is a sequence of texts (one element unless the      *)
(* header was appended to).  A value offered to a setter is [t, s]: its        *)
(* Python type class and the text str(value) gives.                            *)
EXTENDS Query
OkTypes == {"str", "int", "float", "bool", "None"}
HasCtl(s) == \E i \in 1..Len(s) : s[i] \in {10, 13, 0}
\* _hval(value): "ok" | "TypeError" | "ValueError"
Hval(v) == IF v.t \notin OkTypes THEN "TypeError" ELSE IF HasCtl(v.s) THEN "ValueError" ELSE "ok"
IdxOf(store, name) == IF \E i \in 1..Len(store) : store[i].name = name
                      THEN CHOOSE i \in 1..Len(store) : store[i].name = name ELSE 0
\* entry points; each returns [out, store]
SetItem(store, name, v) ==        \* headers[name] = v ; HeaderProperty.__set__
  LET h == Hval(v)  i == IdxOf(store, name) IN
  IF h # "ok" THEN [out |-> h, store |-> store]
  ELSE [out |-> "ok", store |-> IF i = 0 THEN Append(store, [name |-> name, vals |-> <<v.s>>]) ELSE [store EXCEPT ![i].vals = <<v.s>>]]
AppendH(store, name, v) ==        \* headers.append(name, v) ; constructor arguments
  LET h == Hval(v)  i == IdxOf(store, name) IN
  IF h # "ok" THEN [out |-> h, store |-> store]
  ELSE [out |-> "ok", store |-> IF i = 0 THEN Append(store, [name |-> name, vals |-> <<v.s>>]) ELSE [store EXCEPT ![i].vals = Append(@, v.s)]]
SetDefault(store, name, v) ==     \* headers.setdefault(name, v) with a non-list v
  LET h == Hval(v)  i == IdxOf(store, name) IN
  IF h # "ok" THEN [out |-> h, store |-> store]
  ELSE [out |-> "ok", store |-> IF i = 0 THEN Append(store, [name |-> name, vals |-> <<v.s>>]) ELSE store]
\* headerlist for a status: transcoding utf8 -> latin1 view, list expansion, 204/304 blacklist (names compared case-insensitively)
Latin1View(s) == Flatten([j \in 1..Len(s) |-> Utf8(s[j])])
Bad204 == {"content-type"}
Bad304 == {"allow", "content-encoding", "content-language", "content-length", "content-range", "content-type", "content-md5", "last-modified"}
BadFor(status) == IF status = 204 THEN Bad204 ELSE IF status = 304 THEN Bad304 ELSE {}
\* lname: the lower-cased name is supplied by the caller (TLC strings cannot be indexed)
Emit(store, status) ==
  Flatten([i \in 1..Len(store) |->
     IF store[i].lname \in BadFor(status) THEN <<>>
     ELSE [j \in 1..Len(store[i].vals) |-> [name |-> store[i].name, val |-> Latin1View(store[i].vals[j])]]])
=============================================================================
