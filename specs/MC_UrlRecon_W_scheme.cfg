SPECIFICATION Spec
CONSTANTS
 MaxLen = 4
INVARIANT W_scheme
CHECK_DEADLOCK FALSE
