----------------------------- MODULE FieldsTrace ----------------------------
(* Records of real multipart requests served through Ombott.__call__ (handler *)
(* reads request.forms and request.files).  A record: body, maxRead           *)
(* (max_memfile_size), kind ("roundtrip" | "mutated" | "budget"), fields      *)
(* (what was submitted, for roundtrip), status, escaped, hang, forms          *)
(* ([name, [text values]]), files ([name, [[filename, ctype or [], data]]]).  *)
EXTENDS Fields, Json, IOUtils, TLCExt
Traces == JsonDeserialize(IOEnv.TRACE_FILE)
VARIABLE tid
T == Traces[tid]
NormForms(f) == [i \in 1..Len(f) |-> <<f[i][1], f[i][2]>>]
NormFiles(f) == [i \in 1..Len(f) |-> <<f[i][1], [j \in 1..Len(f[i][2]) |-> [fname |-> f[i][2][j][1], ctype |-> f[i][2][j][2], data |-> f[i][2][j][3]]]>>]
NormFields(fs) == [i \in 1..Len(fs) |-> [name |-> fs[i].name, isfile |-> fs[i].isfile, fname |-> fs[i].fname, ctype |-> fs[i].ctype, data |-> fs[i].data]]
\* a delivered value is the complete data of a part: preceded by the end of a header block, followed by the delimiter
Terminated(body, v) ==
  /\ (Len(v) > 1500 \/ FindFrom(v, Token, 0) < 0)   \* the data of one part never contains the delimiter (it would have ended there); long uploads: not scanned here
  /\ \E i \in 0..(Len(body) - Len(v)) :
       /\ Slice(body, i, i + Len(v)) = v
       /\ StartsWithAt(body, Token, i + Len(v))
       /\ i >= 4 /\ Slice(body, i - 4, i) = CRLFx2
DeliveredOK(t) ==
  /\ \A i \in 1..Len(t.forms) : \A j \in 1..Len(t.forms[i][2]) : Terminated(t.body, Bytes(t.forms[i][2][j]))
  /\ \A i \in 1..Len(t.files) : \A j \in 1..Len(t.files[i][2]) : Terminated(t.body, t.files[i][2][j][3])
RECURSIVE TextBytes(_, _)
TextBytes(forms, i) == IF i > Len(forms) THEN 0
   ELSE SumSeq([j \in 1..Len(forms[i][2]) |-> Len(Bytes(forms[i][2][j]))]) + TextBytes(forms, i + 1)
PropFails(t) ==
  (IF t.escaped \/ t.hang \/ t.status >= 500 \/ t.status < 200 THEN {"ClientErrorOnly"} ELSE {})
  \cup (IF t.kind = "roundtrip" /\ ~(t.status = 200 /\ NormForms(t.forms) = Expected(NormFields(t.fields)).forms
                                    /\ NormFiles(t.files) = Expected(NormFields(t.fields)).files) THEN {"RoundTrip"} ELSE {})
  \cup (IF t.kind \notin {"raw", "urlenc"} /\ t.status = 200 /\ ~DeliveredOK(t) THEN {"DeliveredTerminated"} ELSE {})
  \cup (IF t.status = 200 /\ TextBytes(t.forms, 1) > t.maxRead THEN {"TextBudget"} ELSE {})
  \* urlencoded form text (kind "urlenc", fields = the submitted pairs): larger than the threshold => refused (413), else complete
  \cup (IF t.kind = "urlenc" /\ Len(t.body) > t.maxRead /\ t.status # 413 THEN {"FormTextRefused"} ELSE {})
  \cup (IF t.kind = "urlenc" /\ Len(t.body) <= t.maxRead /\
           ~(t.status = 200 /\ NormForms(t.forms) = Expected(NormFields(t.fields)).forms) THEN {"FormTextComplete"} ELSE {})
MechOK(t) ==
  t.kind \in {"raw", "urlenc"} \/ ~t.full \/      \* full: the handler read both request.forms and request.files
  LET r == ParseForm(t.body, t.maxRead) IN
  /\ ~t.escaped
  /\ (r.err = "" => (t.status = 200 /\ NormForms(t.forms) = r.forms /\ NormFiles(t.files) = r.files))
  /\ (r.err = "BodyParsingError" => t.status = 400)
  /\ (r.err = "BodySizeError" => t.status = 413)
Init == tid \in 1..Len(Traces)
Next == UNCHANGED tid
Spec == Init /\ [][Next]_tid
Bookkeeping ==
  /\ (MechOK(T) => TLCSet(1, TLCGet(1) \cup {tid}))
  /\ LET f == PropFails(T) IN (f # {} => TLCSet(2, TLCGet(2) \cup {<<tid, c>> : c \in f}))
ASSUME TLCSet(1, {}) /\ TLCSet(2, {})
Report == /\ PrintT(<<"MECH_MISSING", ToJson((1..Len(Traces)) \ TLCGet(1))>>)
          /\ PrintT(<<"PROP_FAILS", ToJson(TLCGet(2))>>)
=============================================================================
