SPECIFICATION Spec
CONSTANTS
 Boundary <- BoundaryAB
 NameLen = 2
 ValLen = 2
INVARIANT RoundTripInv
CHECK_DEADLOCK FALSE
