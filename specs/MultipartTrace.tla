--------------------------- MODULE MultipartTrace ---------------------------
(* Trace validation of recorded executions of the real MultipartMarkup.      *)
(* A record: boundary, body, the chunk sizes fed, after every parse() the    *)
(* projected carry state + markups + error class, the real one-piece result, *)
(* and kind ("wellformed" | "prefix" | "other").                             *)
(* register 1: tids whose every step matched the mechanism model             *)
(* register 2: <<tid, clause>> property failures, judged from the record     *)
EXTENDS Multipart, Json, IOUtils, TLCExt
Traces == JsonDeserialize(IOEnv.TRACE_FILE)
VARIABLES tid, l, fed, mm
T == Traces[tid]
\* RefMarkups as in MC_Multipart (declarative ranges between delimiters), parameterised by boundary
RECURSIVE RefParts(_, _, _)
RefParts(s, p, acc) ==
  IF Slice(s, p, p + 2) = <<HY, HY>> THEN [ok |-> TRUE, m |-> acc]
  ELSE IF Slice(s, p, p + 2) # CRLF THEN [ok |-> FALSE, m |-> acc]
  ELSE LET hs == p + 2
           he == FindFrom(s, CRLFx2, hs) IN
       IF he < 0 THEN [ok |-> FALSE, m |-> acc]
       ELSE LET ds == he + 4
                de == FindFrom(s, Token, ds) IN
            IF de < 0 THEN [ok |-> FALSE, m |-> acc]
            ELSE RefParts(s, de + TLen, acc \o << <<"headers", hs, he>>, <<"data", ds, de>> >>)
RefMarkups(s) ==
  IF StartsWith(s, BoundaryFull) THEN RefParts(s, Len(BoundaryFull), << <<"data", 0, 0>> >>)
  ELSE [ok |-> FALSE, m |-> <<>>]
PropFails(t) ==
  (IF t.final.markups # t.oneshot.markups \/ t.final.error # t.oneshot.error THEN {"SplitIndep"} ELSE {})
  \cup (IF t.kind = "wellformed" /\ ~RefMarkups(t.body).ok THEN {"GeneratorNotWellFormed"} ELSE {})
  \cup (IF t.kind = "wellformed" /\ RefMarkups(t.body).ok /\
           ~(t.final.error = "" /\ t.final.markups = RefMarkups(t.body).m) THEN {"RefRanges"} ELSE {})
TInit == /\ tid \in 1..Len(Traces) /\ l = 1 /\ fed = 0 /\ mm = InitMM
TStep == /\ l <= Len(T.log)
         /\ mm' = ParseChunk(mm, SubSeq(T.body, fed + 1, fed + T.log[l].k))
         /\ fed' = fed + T.log[l].k
         /\ mm' = T.log[l].mm          \* full carry state, markups and error class as projected from the real objects
         /\ l' = l + 1 /\ UNCHANGED tid
TSpec == TInit /\ [][TStep]_<<tid, l, fed, mm>>
MechOK == l = Len(T.log) + 1
Bookkeeping ==
  /\ (MechOK => TLCSet(1, TLCGet(1) \cup {tid}))
  /\ (l = 1 => LET f == PropFails(T) IN (f # {} => TLCSet(2, TLCGet(2) \cup {<<tid, c>> : c \in f})))
ASSUME TLCSet(1, {}) /\ TLCSet(2, {})
Report == /\ PrintT(<<"MECH_MISSING", ToJson((1..Len(Traces)) \ TLCGet(1))>>)
          /\ PrintT(<<"PROP_FAILS", ToJson(TLCGet(2))>>)
=============================================================================
