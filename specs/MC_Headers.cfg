SPECIFICATION Spec
INVARIANT NoCtlStored
INVARIANT EmitSafe
CHECK_DEADLOCK FALSE
