SPECIFICATION CSpec
CONSTANTS
 SrcLen = 5
 MaxOps = 3
INVARIANT Emit
VIEW CView
CHECK_DEADLOCK FALSE
