--------------------------- MODULE MC_RouterCover ---------------------------
(* Witness edit histories for replay on the real RadiRouter: exhaustive mode *)
(* with VIEW = one history per distinct reachable router state; simulation   *)
(* mode = random long histories.                                             *)
EXTENDS MC_Router_q, Json
VARIABLE hist
CInit == Init /\ hist = <<>>
Rec(op, r, ow, pre, pat, meth, name) == [op |-> op, r |-> r, ow |-> ow, pre |-> pre, pat |-> pat, meth |-> meth, name |-> name]
NoR == R("", <<>>, <<>>, <<>>, {}, "")
CNext ==
  \/ \E r \in Universe, ow \in BOOLEAN : Add(r, ow) /\ hist' = Append(hist, Rec("add", r, ow, <<>>, <<>>, "", ""))
  \/ \E r \in Universe : RemoveRule(r.pat) /\ hist' = Append(hist, Rec("remove_rule", r, FALSE, <<>>, <<>>, "", ""))
  \/ \E r \in Universe : r.pat \in Dom(routes) /\ RemoveRule(r.pat) /\ hist' = Append(hist, Rec("remove_obj", NoR, FALSE, <<>>, r.pat, "", ""))
  \/ \E r \in Universe : r.name # NoName /\ RemoveName(r.name) /\ hist' = Append(hist, Rec("remove_name", NoR, FALSE, <<>>, <<>>, "", r.name))
  \/ \E pre \in Prefixes : HookFree(pre) /\ RemovePrefix(pre) /\ hist' = Append(hist, Rec("remove_prefix", NoR, FALSE, pre, <<>>, "", ""))
  \/ \E r \in Universe : \E meth \in r.meths : RemoveMethod(r.pat, meth) /\ hist' = Append(hist, Rec("remove_method", NoR, FALSE, <<>>, r.pat, meth, ""))
  \/ \E h \in HookRules : (AddHook(h) /\ hist' = Append(hist, Rec("add_hook", h, FALSE, <<>>, <<>>, "", "")))
                          \/ (RemoveHook(h) /\ hist' = Append(hist, Rec("remove_hook", h, FALSE, <<>>, <<>>, "", "")))
CSpec == CInit /\ [][CNext]_<<vars, hist>>
CView == vars
Emit == hist = <<>> \/ PrintT(<<"W", ToJson(hist)>>)
EmitEnd == TLCGet("level") < MaxOps \/ PrintT(<<"W", ToJson(hist)>>)
=============================================================================
