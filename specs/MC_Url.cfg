SPECIFICATION Spec
CONSTANTS ProbeLen = 5
INVARIANT UrlInv
CHECK_DEADLOCK FALSE
