SPECIFICATION Spec
CONSTANTS
 Keys = {k1, k2}
 MsgIds = {a, b}
 SigLen = 3
 MsgLen = 3
 MaxEdits = 2
INVARIANT LoadsOnlyVerified
INVARIANT ForgedAbsent
INVARIANT RoundTrip
CHECK_DEADLOCK FALSE
