SPECIFICATION CSpec
CONSTANTS
 Boundary <- BoundaryHH
 MaxData = 3
 TwoParts = FALSE
INVARIANT Emit
CHECK_DEADLOCK FALSE
