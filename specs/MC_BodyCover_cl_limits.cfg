SPECIFICATION CSpec
CONSTANTS
 ShortReads = TRUE
 Scenario = "cl"
 MaxData = 6
 MaxCL = 7
 Bufs = {1,2,3}
 MaxBodies <- MB_small
INVARIANT Emit
VIEW CView
CHECK_DEADLOCK FALSE
