--------------------------------- MODULE Url --------------------------------
(* C19: Route.url -- building a URL from matched parameters.                  *)
(* Transcription of the walk over pattern_out (cidx / clen / end              *)
(* bookkeeping, f_out formatters str(int(x)), positional float) and the       *)
(* statement: for every rule and every assignment obtained by matching a      *)
(* path, the built URL is matched by the rule with the same values and the    *)
(* rule's literals appear verbatim, in order.                                 *)
EXTENDS Router

\* canonical text of converted values: what f_out produces from the value the filter accepted
RECURSIVE StripZeros(_)
StripZeros(s) == IF Len(s) > 1 /\ Head(s) = ZERO THEN StripZeros(Tail(s)) ELSE s
CanonIntT(s) == LET neg == s # <<>> /\ Head(s) = HY
                    d == StripZeros(IF neg THEN Tail(s) ELSE s) IN
                IF neg /\ d # <<ZERO>> THEN <<HY>> \o d ELSE d
RECURSIVE StripTrail(_)
StripTrail(s) == IF Len(s) > 1 /\ s[Len(s)] = ZERO THEN StripTrail(SubSeq(s, 1, Len(s) - 1)) ELSE s
\* str(float(text)) for plain decimals of moderate size: -?int[.frac] -> canonical int part, fraction without trailing zeros, at least ".0"
CanonFloatT(s) ==
  LET neg == s # <<>> /\ Head(s) = HY
      body == IF neg THEN Tail(s) ELSE s
      dot == IndexOf(body, 46)
      ip == StripZeros(IF dot < 0 THEN body ELSE Slice(body, 0, dot))
      fp == IF dot < 0 THEN <<ZERO>> ELSE StripTrail(From(body, dot + 1)) IN
  (IF neg THEN <<HY>> ELSE <<>>) \o ip \o <<46>> \o fp
Formatted(f, v) == IF f = "int(None)" THEN CanonIntT(v) ELSE IF f = "float(None)" THEN CanonFloatT(v) ELSE v

\* Route.url(*args, **kw): values are given per wildcard in pattern order
RECURSIVE BuildFrom(_, _, _, _)
BuildFrom(pat, filters, vals, k) ==    \* k = index of the next wildcard
  IF pat = <<>> THEN <<>>
  ELSE IF Head(pat) = TOKEN THEN Formatted(filters[k], vals[k]) \o BuildFrom(Tail(pat), filters, vals, k + 1)
  ELSE <<Head(pat)>> \o BuildFrom(Tail(pat), filters, vals, k)
BuildUrl(r, vals) == BuildFrom(r.pat, r.filters, vals, 1)

\* the literal runs of a pattern, in order
RECURSIVE Literals(_, _)
Literals(pat, cur) == IF pat = <<>> THEN (IF cur = <<>> THEN <<>> ELSE <<cur>>)
  ELSE IF Head(pat) = TOKEN THEN (IF cur = <<>> THEN <<>> ELSE <<cur>>) \o Literals(Tail(pat), <<>>)
  ELSE Literals(Tail(pat), Append(cur, Head(pat)))
RECURSIVE InOrder(_, _, _)
InOrder(lits, url, from) == lits = <<>> \/ LET p == FindFrom(url, Head(lits), from) IN p >= 0 /\ InOrder(Tail(lits), url, p + Len(Head(lits)))
\* values compare after conversion
SameVals(r, a, b) == Len(a) = Len(b) /\ \A i \in 1..Len(a) : Formatted(r.filters[i], a[i]) = Formatted(r.filters[i], b[i])
RoundTripUrl(r, path) ==
  LET m == RefMatch(r, path) IN
  m.ok => LET u == BuildUrl(r, m.vals)  m2 == RefMatch(r, u) IN
          m2.ok /\ SameVals(r, m.vals, m2.vals) /\ InOrder(Literals(r.pat, <<>>), u, 0)
=============================================================================
