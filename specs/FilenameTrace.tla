--------------------------- MODULE FilenameTrace ----------------------------
(* Records [raw, got, again, modelled]: the real FileUpload.filename for raw,  *)
(* and for got again.  register 1: records where the transcription gives the   *)
(* same name (only claimed when every character of raw is in the model's       *)
(* alphabet); register 2: property failures (Safe, Idempotent).                *)
EXTENDS Filename, Json, IOUtils, TLCExt
Traces == JsonDeserialize(IOEnv.TRACE_FILE)
VARIABLE tid
T == Traces[tid]
PropFails(t) == (IF ~Safe(t.got) THEN {"Safe"} ELSE {}) \cup (IF t.again # t.got THEN {"Idempotent"} ELSE {})
MechOK(t) == ~t.modelled \/ Sanitise(t.raw) = t.got
Init == tid \in 1..Len(Traces)
Next == UNCHANGED tid
Spec == Init /\ [][Next]_tid
Bookkeeping ==
  /\ (MechOK(T) => TLCSet(1, TLCGet(1) \cup {tid}))
  /\ LET f == PropFails(T) IN (f # {} => TLCSet(2, TLCGet(2) \cup {<<tid, c>> : c \in f}))
ASSUME TLCSet(1, {}) /\ TLCSet(2, {})
Report == /\ PrintT(<<"MECH_MISSING", ToJson((1..Len(Traces)) \ TLCGet(1))>>)
          /\ PrintT(<<"PROP_FAILS", ToJson(TLCGet(2))>>)
=============================================================================
