SPECIFICATION CSpec
CONSTANTS
 Boundary <- BoundaryB
 MaxData = 3
 TwoParts = TRUE
INVARIANT Emit
CHECK_DEADLOCK FALSE
