SPECIFICATION CSpec
CONSTANTS
 Boundary <- BoundaryB
 MaxData = 3
 TwoParts = TRUE
INVARIANT Emit
VIEW CView
CHECK_DEADLOCK FALSE
