------------------------------- MODULE Router -------------------------------
(* Implementation-shaped model of ombott/router/radidict.py (RadiDict._match, *)
(* _split, _mount, _make_route, _set, remove, _try_merge, get) and of        *)
(* ombott/router/radirouter.py (RadiRouter._add, remove, add_hook,           *)
(* remove_hook, resolve; Route.__getitem__ / methods), plus the reference    *)
(* semantics RouterAbs (rule-by-rule matcher, method fallback chain, hooks)  *)
(* the listed properties C01, C02, C11 are stated against.                   *)
(*                                                                           *)
(* A node of the radix tree is the record                                    *)
(*   [key, idx, params, filter, hooks, data, ch]                             *)
(* (the Python list minus WEIGHT, written but never read, and IS_EXCLUSIVE,  *)
(* constant False through the router).  data = <<>> or <<pattern>> (the      *)
(* Route object is identified by its pattern), hooks = <<>> or <<pattern>>.  *)
(* Patterns are Seq(Nat) with TOKEN (13, '\r') marking a wildcard.           *)
(* This is the REPAIRED mechanism: the lookup never treats TOKEN in the      *)
(* request path as a literal child key, pruning keeps nodes that hold hooks, *)
(* remove_hook always clears the hooks, removing a route drops every name.   *)
EXTENDS Text, TLC

TOKEN == 13
SEP == 47
None == "None"

MkNode(key, idx, params, filter, hooks, data, ch) ==
  [key |-> key, idx |-> idx, params |-> params, filter |-> filter, hooks |-> hooks, data |-> data, ch |-> ch]
EmptyNode(key) == MkNode(key, <<>>, <<>>, None, <<>>, <<>>, <<>>)
RootNode == EmptyNode(<<SEP>>)

RECURSIVE NodeAt(_, _)
NodeAt(t, ip) == IF ip = <<>> THEN t ELSE NodeAt(t.ch[Head(ip)], Tail(ip))
RECURSIVE PutAt(_, _, _)
PutAt(t, ip, n) == IF ip = <<>> THEN n
   ELSE [t EXCEPT !.ch = [@ EXCEPT ![Head(ip)] = PutAt(@, Tail(ip), n)]]

-----------------------------------------------------------------------------
\* Filters (FilterFactory): a filter is identified by its cache key "name(args)"; None = plain wildcard.
\* Consume(f, s, i) = number of characters the filter's regex consumes at 0-based i (mask.match), -1 if no match.
RECURSIVE DigitsLen(_, _)
DigitsLen(s, i) == IF i < Len(s) /\ IsDigit(s[i + 1]) THEN 1 + DigitsLen(s, i + 1) ELSE 0
RECURSIVE UntilSep(_, _)
UntilSep(s, i) == IF i < Len(s) /\ s[i + 1] # SEP THEN 1 + UntilSep(s, i + 1) ELSE 0
IsLower(c) == c \in 97..122
RECURSIVE LowerLen(_, _)
LowerLen(s, i) == IF i < Len(s) /\ IsLower(s[i + 1]) THEN 1 + LowerLen(s, i + 1) ELSE 0
\* '.' in Python's re excludes LF only
RECURSIVE DotLen(_, _)
DotLen(s, i) == IF i < Len(s) /\ s[i + 1] # LF THEN 1 + DotLen(s, i + 1) ELSE 0
\* greedy .+(?=lit): the last position p > i, within the dot run, at which lit starts
LastLit(s, i, lit) ==
  LET run == DotLen(s, i)
      cands == {p \in (i + 1)..(i + run) : StartsWithAt(s, lit, p)} IN
  IF cands = {} THEN -1 ELSE MaxOf(cands) - i
IntLen(s, i) == LET neg == IF i < Len(s) /\ s[i + 1] = HY THEN 1 ELSE 0
                    d == DigitsLen(s, i + neg) IN IF d = 0 THEN -1 ELSE neg + d
FloatLen(s, i) == LET a == IntLen(s, i) IN
  IF a < 0 THEN -1
  ELSE IF i + a < Len(s) /\ s[i + a + 1] = 46 /\ DigitsLen(s, i + a + 1) > 0 THEN a + 1 + DigitsLen(s, i + a + 1)
  ELSE a
\* filter descriptors used by the models: [k |-> kind, lit |-> literal for path]
FPlain == None
Consume(f, s, i) ==
  IF f = None THEN UntilSep(s, i)                        \* plain wildcard: up to the next '/', may be empty only at... (see Get)
  ELSE IF f = "int(None)" THEN IntLen(s, i)
  ELSE IF f = "float(None)" THEN FloatLen(s, i)
  ELSE IF f = "re([a-z]+)" THEN (LET n == LowerLen(s, i) IN IF n = 0 THEN -1 ELSE n)
  ELSE IF f = "re(to.)" THEN (IF StartsWithAt(s, <<116, 111>>, i) /\ i + 2 < Len(s) /\ s[i + 3] # LF THEN 3 ELSE -1)
  \* expressions that look at their own left edge: a filter is matched against the REMAINING text, so '^' holds at i and
  \* '\b' holds at i whenever a word character starts there, whatever precedes position i in the path
  ELSE IF f = "re(^to.)" THEN (IF StartsWithAt(s, <<116, 111>>, i) /\ i + 2 < Len(s) /\ s[i + 3] # LF THEN 3 ELSE -1)
  ELSE IF f = "re(\\b[a-z]+)" THEN (LET n == LowerLen(s, i) IN IF n = 0 THEN -1 ELSE n)
  ELSE IF f = "path()" THEN (LET n == DotLen(s, i) IN IF n = 0 \/ i + n # Len(s) THEN -1 ELSE n)   \* .+$  ($ at the very end; no trailing LF in probes)
  ELSE IF f = "path(/e)" THEN LastLit(s, i, <<SEP, 101>>)
  ELSE IF f = "path(e)" THEN LastLit(s, i, <<101>>)
  ELSE -1

-----------------------------------------------------------------------------
\* RadiDict._match(route, filters): [ip, mm, i, pidx]; mm in {None, "WHOLE", "PARTIAL", "FILTER"}
RECURSIVE MatchFrom(_, _, _, _, _, _)
MatchFrom(t, ip, route, i, pidx, filters) ==
  LET node == NodeAt(t, ip) IN
  IF i >= Len(route) THEN [ip |-> ip, mm |-> None, i |-> i, pidx |-> pidx]
  ELSE LET k == IndexOf(node.idx, route[i + 1]) IN
    IF k < 0 THEN [ip |-> ip, mm |-> "WHOLE", i |-> i, pidx |-> pidx]
    ELSE LET cip == Append(ip, k + 1)
             child == node.ch[k + 1]
             kend == i + Len(child.key) IN
      IF child.key = Slice(route, i, kend) THEN
        IF child.key = <<TOKEN>> /\ filters # <<>> /\ child.filter # filters[pidx + 1]
        THEN [ip |-> cip, mm |-> "FILTER", i |-> i, pidx |-> pidx]
        ELSE MatchFrom(t, cip, route, kend, IF child.key = <<TOKEN>> THEN pidx + 1 ELSE pidx, filters)
      ELSE [ip |-> cip, mm |-> "PARTIAL", i |-> i, pidx |-> pidx]
Match(t, route, filters) == MatchFrom(t, <<>>, route, 0, 0, filters)

\* _mount: literal child in front, the single token child last
Mount(p, child) ==
  IF child.key = <<TOKEN>> THEN [p EXCEPT !.ch = Append(@, child), !.idx = Append(@, TOKEN)]
  ELSE [p EXCEPT !.ch = <<child>> \o @, !.idx = <<child.key[1]>> \o @]

\* _make_route: chain of new nodes below p
RECURSIVE Chain(_, _, _, _, _, _)
Chain(rest, filters, fidx, data, hooks, pkeys) ==
  LET tp == IndexOf(rest, TOKEN)
      klen == IF tp = 0 THEN 1 ELSE IF tp > 0 THEN tp ELSE Len(rest)
      key == Slice(rest, 0, klen)
      isTok == tp = 0
      base == MkNode(key, <<>>, <<>>, IF isTok THEN filters[fidx + 1] ELSE None, <<>>, <<>>, <<>>)
      more == From(rest, klen) IN
  IF more = <<>> THEN [base EXCEPT !.data = data, !.hooks = hooks, !.params = pkeys]
  ELSE Mount(base, Chain(more, filters, IF isTok THEN fidx + 1 ELSE fidx, data, hooks, pkeys))
MakeRoute(p, rest, filters, fidx, data, hooks, pkeys) == Mount(p, Chain(rest, filters, fidx, data, hooks, pkeys))

\* _split(node, by_key)
Split(n, byKey) ==
  LET si == CommonLen(n.key, byKey) IN
  [node |-> MkNode(Slice(n.key, 0, si), <<n.key[si + 1]>>, <<>>, None, <<>>, <<>>, << [n EXCEPT !.key = From(n.key, si)] >>), si |-> si]

TokenPos(s) == LET p == IndexOf(s, TOKEN) IN IF p >= 0 THEN p ELSE Len(s)
\* _set: [ok, t]; data/hooks are <<>> (None) or <<x>>
SetRoute(t, route, filters, pkeys, data, hooks, overwrite) ==
  LET m == Match(t, route, filters) IN
  IF m.mm = "FILTER" THEN [ok |-> FALSE, t |-> t]
  ELSE LET
     doSplit == m.mm = "PARTIAL"
     ck == LET r == From(route, m.i) IN Slice(r, 0, TokenPos(r))
     sp == IF doSplit THEN Split(NodeAt(t, m.ip), ck) ELSE [node |-> NodeAt(t, m.ip), si |-> 0]
     t1 == IF doSplit THEN PutAt(t, m.ip, sp.node) ELSE t
     ptr == m.i + sp.si
     mm2 == IF doSplit THEN (IF ptr >= Len(route) THEN None ELSE "WHOLE") ELSE m.mm
     node == NodeAt(t1, m.ip)
  IN IF mm2 = None THEN
        IF (data # <<>> /\ node.data # <<>> /\ ~overwrite) \/ (hooks # <<>> /\ node.hooks # <<>> /\ ~overwrite)
        THEN [ok |-> FALSE, t |-> t1]
        ELSE [ok |-> TRUE, t |-> PutAt(t1, m.ip,
                 [node EXCEPT !.data = IF data # <<>> THEN data ELSE @,
                              !.hooks = IF hooks # <<>> THEN hooks ELSE @,
                              !.params = IF data # <<>> THEN pkeys ELSE @])]
     ELSE [ok |-> TRUE, t |-> PutAt(t1, m.ip, MakeRoute(node, From(route, ptr), filters, m.pidx, data, hooks, pkeys))]

\* remove(): pruning and merging
TryMerge(n, isRoot) ==
  IF isRoot \/ n.data # <<>> \/ n.hooks # <<>> \/ Len(n.idx) # 1 \/ n.key = <<TOKEN>> \/ n.idx = <<TOKEN>> THEN n
  ELSE LET c == n.ch[1] IN [c EXCEPT !.key = n.key \o c.key]
RemoveAtIdx(s, k) == SubSeq(s, 1, k - 1) \o SubSeq(s, k + 1, Len(s))
RECURSIVE Prune(_, _)
Prune(t, ip) ==
  LET n == NodeAt(t, ip) IN
  IF n.data # <<>> \/ n.idx # <<>> \/ n.hooks # <<>> \/ ip = <<>> THEN t
  ELSE LET pip == SubSeq(ip, 1, Len(ip) - 1)
           p == NodeAt(t, pip)
           k == ip[Len(ip)]
           p1 == [p EXCEPT !.idx = RemoveAtIdx(@, k), !.ch = RemoveAtIdx(@, k)]
           p2 == TryMerge(p1, pip = <<>>)
       IN Prune(PutAt(t, pip, p2), pip)
\* RadiDict.remove(route_pattern, hooks_only); a trailing '*' (42) removes the whole branch
STAR == 42
RemoveRoute(t, route0, hooksOnly) ==
  LET wild == route0 # <<>> /\ route0[Len(route0)] = STAR
      route == IF wild THEN SubSeq(route0, 1, Len(route0) - 1) ELSE route0
      m == Match(t, route, <<>>)
      n0 == NodeAt(t, m.ip)
      branch == wild /\ (m.mm = None \/ (m.mm = "PARTIAL" /\ StartsWith(n0.key, From(route, m.i))))
  IN
  IF ~branch /\ m.mm # None THEN t
  ELSE LET n == IF branch THEN [n0 EXCEPT !.idx = <<>>, !.ch = <<>>] ELSE n0 IN
    IF hooksOnly THEN
       IF n.data # <<>> THEN PutAt(t, m.ip, [n EXCEPT !.hooks = <<>>])
       ELSE Prune(PutAt(t, m.ip, [n EXCEPT !.hooks = <<>>]), m.ip)
    ELSE Prune(PutAt(t, m.ip, [n EXCEPT !.data = <<>>, !.params = <<>>]), m.ip)

\* RadiDict.get(route, allow_partial): depth-first, literal child first, token child through look_back
HookAdd(hooks, i, n) == IF n.hooks # <<>> THEN Append(hooks, <<i, n.hooks[1]>>) ELSE hooks
RECURSIVE GetRun(_, _, _, _, _, _, _, _)
GetRun(t, route, ip, i, params, hooks, lb, look) ==
  LET node == NodeAt(t, ip)
      L == Len(route)
      Back == IF lb = <<>> THEN [found |-> FALSE]
              ELSE LET s == lb[Len(lb)] IN GetRun(t, route, s.ip, s.i, s.params, s.hooks, SubSeq(lb, 1, Len(lb) - 1), TRUE)
  IN
  IF i >= L THEN (IF node.data # <<>> THEN [found |-> TRUE, data |-> node.data[1], pkeys |-> node.params, pvals |-> params, hooks |-> hooks] ELSE Back)
  ELSE IF node.idx = <<>> THEN Back
  ELSE LET k == IF look \/ route[i + 1] = TOKEN THEN -1 ELSE IndexOf(node.idx, route[i + 1])
           hasTok == node.idx[Len(node.idx)] = TOKEN
       IN IF k < 0 THEN
            IF hasTok THEN
              LET tn == node.ch[Len(node.ch)]
                  n == Consume(tn.filter, route, i)
              IN IF n < 0 THEN Back
                 ELSE GetRun(t, route, Append(ip, Len(node.ch)), i + n, Append(params, Slice(route, i, i + n)), HookAdd(hooks, i + n, tn), lb, FALSE)
            ELSE Back
          ELSE LET lb2 == IF hasTok THEN Append(lb, [ip |-> ip, i |-> i, params |-> params, hooks |-> hooks]) ELSE lb
                   child == node.ch[k + 1]
                   kend == i + Len(child.key)
               IN IF child.key = Slice(route, i, kend) THEN GetRun(t, route, Append(ip, k + 1), kend, params, HookAdd(hooks, kend, child), lb2, FALSE)
                  ELSE (IF lb2 = <<>> THEN [found |-> FALSE]
                        ELSE LET s == lb2[Len(lb2)] IN GetRun(t, route, s.ip, s.i, s.params, s.hooks, SubSeq(lb2, 1, Len(lb2) - 1), TRUE))
Get(t, route) == GetRun(t, route, <<>>, 0, <<>>, HookAdd(<<>>, 0, t), <<>>, FALSE)

\* all patterns of nodes that hold data / hooks (for the index-agreement invariants)
RECURSIVE DataPats(_, _)
DataPats(n, prefix) ==
  LET here == prefix \o n.key IN
  (IF n.data # <<>> THEN {n.data[1]} ELSE {}) \cup UNION {DataPats(n.ch[j], here) : j \in 1..Len(n.ch)}
RECURSIVE HookPats(_)
HookPats(n) == (IF n.hooks # <<>> THEN {n.hooks[1]} ELSE {}) \cup UNION {HookPats(n.ch[j]) : j \in 1..Len(n.ch)}

-----------------------------------------------------------------------------
(* RouterAbs: reference semantics                                            *)
\* scan a pattern over a path recording the value of every wildcard and, per pattern position j,
\* the path offset reached after consuming pattern[1..j]
RECURSIVE RefScan(_, _, _, _, _, _, _)
RefScan(pat, filters, fidx, path, i, vals, offs) ==
  IF pat = <<>> THEN (IF i = Len(path) THEN [ok |-> TRUE, vals |-> vals, offs |-> offs] ELSE [ok |-> FALSE])
  ELSE IF Head(pat) = TOKEN THEN
     IF i >= Len(path) THEN [ok |-> FALSE]
     ELSE LET n == Consume(filters[fidx + 1], path, i) IN
       IF n < 0 THEN [ok |-> FALSE]
       ELSE RefScan(Tail(pat), filters, fidx + 1, path, i + n, Append(vals, Slice(path, i, i + n)), Append(offs, i + n))
  ELSE IF i < Len(path) /\ path[i + 1] = Head(pat) /\ path[i + 1] # TOKEN
       THEN RefScan(Tail(pat), filters, fidx, path, i + 1, vals, Append(offs, i + 1))
  ELSE [ok |-> FALSE]
RefMatch(r, path) == RefScan(r.pat, r.filters, 0, path, 0, <<>>, <<>>)
\* p is preferred over q: literal rather than wildcard at the first position where they differ
Prefer(p, q) == LET n == CommonLen(p, q) IN n < Len(p) /\ n < Len(q) /\ q[n + 1] = TOKEN /\ p[n + 1] # TOKEN
\* method fallback chain (Ombott.to_route + Route.__getitem__)
Chain405(verb) == IF verb = "HEAD" THEN <<"HEAD", "GET", "ANY">> ELSE <<verb, "ANY">>
RECURSIVE FirstIn(_, _)
FirstIn(seq, S) == IF seq = <<>> THEN None ELSE IF Head(seq) \in S THEN Head(seq) ELSE FirstIn(Tail(seq), S)
\* named (non-anonymous) parameters: names zipped with values
Anon(n) == n = ""
NamedParams(names, vals) == {<<names[j], vals[j]>> : j \in {x \in 1..Min2(Len(names), Len(vals)) : ~Anon(names[x])}}
=============================================================================
