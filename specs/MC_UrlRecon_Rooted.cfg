SPECIFICATION Spec
CONSTANTS
 MaxLen = 4
INVARIANT Rooted
CHECK_DEADLOCK FALSE
