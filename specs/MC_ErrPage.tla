----------------------------- MODULE MC_ErrPage -----------------------------
EXTENDS ErrPage
CONSTANTS PayLen
VARIABLES payload, ch, critical
vars == <<payload, ch, critical>>
Alpha == {LT, GT, QUOTE, APOS, AMP, LB, RB, BSL, PCT, 97, 233}
Init == payload \in SeqsUpTo(Alpha, PayLen) /\ ch \in {"path", "query", "host"} /\ critical \in BOOLEAN
Next == UNCHANGED vars
Spec == Init /\ [][Next]_vars
Mark(p) == <<122, 113>> \o p \o <<113, 122>>
\* one template line with the three kinds of fields, as error.html has them
Tpl == << [f |-> "", lit |-> <<LT, 116, 116, GT>>], [f |-> "url", lit |-> <<>>], [f |-> "", lit |-> <<LT, SLASH, 116, 116, GT, LB>>],
          [f |-> "body", lit |-> <<>>] >>
Region == IF critical THEN RenderedCritical(Mark(payload)) ELSE RenderedUrlPiece(Mark(payload), ch)
Page == IF critical THEN <<LT, 104, 49, GT>> \o Region
        ELSE FormatT(Tpl, [url |-> <<APOS>> \o Region \o <<APOS>>, body |-> <<78, 111, 116>>])
Safe == NoMarkup(Region)
InertInv == Inert(Region, Mark(payload), ch, critical)
\* the page contains the region verbatim: format() does not re-interpret substituted text
FormatInert == Find(Page, Region) >= 0
=============================================================================
