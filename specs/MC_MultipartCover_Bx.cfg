SPECIFICATION CSpec
CONSTANTS
 Boundary <- BoundaryBx
 MaxData = 2
 TwoParts = TRUE
INVARIANT Emit
VIEW CView
CHECK_DEADLOCK FALSE
