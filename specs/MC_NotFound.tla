----------------------------- MODULE MC_NotFound ----------------------------
(* Beyond the listed properties: sub-tree "not found" handlers,              *)
(* Ombott.error(404, rule) -> RadiRouter.add_hook(rule, h, PARTIAL).  When   *)
(* no route matches, RadiDict.get(path, allow_partial=True) hands back the   *)
(* hooks it had collected at the point where the LAST alternative it tried   *)
(* failed; Ombott.handler calls the partial handler of the deepest of those  *)
(* with (path[:1 + pos], wildcard values) -- or answers the plain 404.       *)
(* Every hook of this model is such a handler (the tree treats both kinds    *)
(* alike).  GetFail transcribes the failing lookup; NearestHandler is the    *)
(* declarative reading "the handler of the longest hooked rule that matches  *)
(* a prefix of the path".  TLC explores the edit histories of MC_Router and  *)
(* compares the two on every probe that no route matches.                    *)
EXTENDS MC_Router_q, Json, SequencesExt

\* RadiDict.get(route, allow_partial=True) when it fails: [hooks, pvals] at the final failure
RECURSIVE FailRun(_, _, _, _, _, _, _, _)
FailRun(t, route, ip, i, params, hooks, lb, look) ==
  LET node == NodeAt(t, ip)
      L == Len(route)
      Here == [found |-> FALSE, hooks |-> hooks, pvals |-> params]
      Back == IF lb = <<>> THEN Here
              ELSE LET s == lb[Len(lb)] IN FailRun(t, route, s.ip, s.i, s.params, s.hooks, SubSeq(lb, 1, Len(lb) - 1), TRUE)
  IN
  IF i >= L THEN (IF node.data # <<>> THEN [found |-> TRUE, hooks |-> hooks, pvals |-> params] ELSE Back)
  ELSE IF node.idx = <<>> THEN Back
  ELSE LET k == IF look \/ route[i + 1] = TOKEN THEN -1 ELSE IndexOf(node.idx, route[i + 1])
           hasTok == node.idx[Len(node.idx)] = TOKEN
       IN IF k < 0 THEN
            IF hasTok THEN
              LET tn == node.ch[Len(node.ch)]
                  n == Consume(tn.filter, route, i)
              IN IF n < 0 THEN Back
                 ELSE FailRun(t, route, Append(ip, Len(node.ch)), i + n, Append(params, Slice(route, i, i + n)), HookAdd(hooks, i + n, tn), lb, FALSE)
            ELSE Back
          ELSE LET lb2 == IF hasTok THEN Append(lb, [ip |-> ip, i |-> i, params |-> params, hooks |-> hooks]) ELSE lb
                   child == node.ch[k + 1]
                   kend == i + Len(child.key)
               IN IF child.key = Slice(route, i, kend) THEN FailRun(t, route, Append(ip, k + 1), kend, params, HookAdd(hooks, kend, child), lb2, FALSE)
                  ELSE (IF lb2 = <<>> THEN Here
                        ELSE LET s == lb2[Len(lb2)] IN FailRun(t, route, s.ip, s.i, s.params, s.hooks, SubSeq(lb2, 1, Len(lb2) - 1), TRUE))
GetFail(t, route) == FailRun(t, route, <<>>, 0, <<>>, HookAdd(<<>>, 0, t), <<>>, FALSE)

\* Ombott.handler on 404: the partial handler of the last collected hook
Impl404(path) ==
  LET f == GetFail(tree, path) IN
  IF f.found THEN [k |-> "route"]
  ELSE IF f.hooks = <<>> THEN [k |-> "404"]
  ELSE LET h == f.hooks[Len(f.hooks)] IN [k |-> "partial", h |-> h[2], pos |-> h[1], vals |-> f.pvals]

\* declarative: among the installed hooked rules that match a prefix of the path, the one matching the longest prefix
\* the offset at which the pattern is used up when scanned over the beginning of the path (-1: it does not fit); a wildcard
\* needs a position inside the path, as in the full match, but what follows the pattern is left alone
RECURSIVE PrefixEnd(_, _, _, _, _)
PrefixEnd(pat, filters, fidx, path, i) ==
  IF pat = <<>> THEN i
  ELSE IF Head(pat) = TOKEN THEN
     IF i >= Len(path) THEN -1
     ELSE LET n == Consume(filters[fidx + 1], path, i) IN
       IF n < 0 THEN -1 ELSE PrefixEnd(Tail(pat), filters, fidx + 1, path, i + n)
  ELSE IF i < Len(path) /\ path[i + 1] = Head(pat) /\ path[i + 1] # TOKEN THEN PrefixEnd(Tail(pat), filters, fidx, path, i + 1)
  ELSE -1
PrefixMatch(hp, path) == LET hr == CHOOSE r \in HookRules : r.pat = hp IN PrefixEnd(hp, hr.filters, 0, path, 0)
NearestHandler(path) ==
  LET cands == {hp \in hooksIdx : PrefixMatch(hp, path) >= 0} IN
  IF cands = {} THEN [k |-> "404"]
  ELSE LET best == CHOOSE hp \in cands : \A q \in cands : PrefixMatch(q, path) <= PrefixMatch(hp, path) IN
       [k |-> "partial", h |-> best, pos |-> PrefixMatch(best, path)]
Unrouted == {pp \in Probes : ~Get(tree, pp).found}
\* does the code call the nearest handler, with the prefix it stands for?
NearestAgree == \A pp \in Unrouted :
   LET ia == Impl404(pp)  nb == NearestHandler(pp) IN ia.k = nb.k /\ (ia.k = "partial" => (ia.h = nb.h /\ ia.pos = nb.pos))
\* weaker: whatever handler the code calls is one whose rule matches a prefix of the path, called with that prefix
CalledIsAncestor == \A pp \in Unrouted :
   LET ia == Impl404(pp) IN ia.k = "partial" =>
      PrefixMatch(ia.h, pp) = ia.pos
\* and a handler is never skipped entirely when one stands above the path
NoneSkipped == \A pp \in Unrouted : (NearestHandler(pp).k = "partial") => (Impl404(pp).k = "partial")
\* witnesses for replay: one history per distinct router state, with the model's answer for every unrouted probe
VARIABLE hist
NInit == Init /\ hist = <<>>
Rec(op, r) == [op |-> op, r |-> [id |-> r.id, pat |-> r.pat, filters |-> r.filters, names |-> r.names, meths |-> r.meths, name |-> r.name]]
NNext ==
  \/ \E r \in Universe : Add(r, FALSE) /\ hist' = Append(hist, Rec("add", r))
  \/ \E r \in Universe : RemoveRule(r.pat) /\ hist' = Append(hist, Rec("remove_rule", r))
  \/ \E h \in HookRules : (AddHook(h) /\ hist' = Append(hist, Rec("add_hook", h))) \/ (RemoveHook(h) /\ hist' = Append(hist, Rec("remove_hook", h)))
NSpec == NInit /\ [][NNext]_<<vars, hist>>
NView == vars
Emit == hist = <<>> \/ PrintT(<<"W", ToJson([hist |-> hist, probes |-> SetToSeq({[path |-> pp, ans |-> Impl404(pp)] : pp \in Unrouted})])>>)
=============================================================================
