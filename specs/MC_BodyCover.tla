---------------------------- MODULE MC_BodyCover ----------------------------
(* State cover of MC_Body: one witness read schedule per distinct terminal   *)
(* state, printed as JSON for replay on the real body reader.                *)
EXTENDS MC_Body, Json
VARIABLE hist
CInit == Init /\ hist = <<>>
CNext == Next /\ UNCHANGED <<kind, expect>> /\ hist' = Append(hist, pos' - pos)
CSpec == CInit /\ [][CNext]_<<mcvars, hist>>
CView == mcvars
Emit == ~Terminal \/ PrintT(<<"W", ToJson([mode |-> mode, inp |-> inp, cl |-> cl, buf |-> buf, maxBody |-> maxBody,
                                          kind |-> kind, expect |-> expect, ks |-> hist,
                                          phase |-> phase, out |-> out, spooled |-> spooled])>>)
=============================================================================
