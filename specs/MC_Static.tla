------------------------------ MODULE MC_Static -----------------------------
(* Small-scope exhaustive check of C17 (range / conditional / HEAD / chunking) *)
(* and C16 (path containment) on the transcription in Static.tla.             *)
EXTENDS Static
CONSTANTS HdrLen, MaxL, Scenario
VARIABLES L, hasRange, header, ims, method, maxread, rootSegs, nameSegs
vars == <<L, hasRange, header, ims, method, maxread, rootSegs, nameSegs>>
HAlpha == {48, 49, 53, HY, COMMA, SP, PLUS, US, 120}
Bodies == SeqsUpTo(HAlpha, HdrLen)
Few == {<<48, HY>>, <<HY, 49>>, <<49, HY, 53>>, <<53, HY, 49>>, <<120>>, <<>>}
\* C16 universe: the tree  /b/root/{in, sub/deep} , /b/rootx/sib , /b/top ; cwd = /b
Segs == {"in", "sub", "deep", ".", "..", "", "rootx", "sib", "top", "root", "b", "..\\..", "x\\y"}
RootSpellings == { <<"b", "root">>, <<"b", "root", "">>, <<"b", "root", ".">>, <<"b", "rootx", "..", "root">>,
                   <<"b", ".", "root">>, <<"b", "sub", "..", "root", "">> }
Files == { <<"b", "root", "in">>, <<"b", "root", "sub", "deep">>, <<"b", "rootx", "sib">>, <<"b", "top">> }
Init ==
  \/ /\ Scenario = "range"
     /\ L \in 0..MaxL /\ hasRange = TRUE /\ header \in {BYTESEQ \o b : b \in Bodies} /\ ims = "absent" /\ method = "GET"
     /\ maxread \in {2, 3} /\ rootSegs = <<>> /\ nameSegs = <<>>
  \/ /\ Scenario = "cond"
     /\ L \in 0..MaxL /\ hasRange \in BOOLEAN /\ header \in {BYTESEQ \o b : b \in Few} \cup {<<>>, <<120>> \o BYTESEQ \o <<49, HY>>}
     /\ ims \in {"absent", "older", "equal", "newer", "junk"} /\ method \in {"GET", "HEAD"}
     /\ maxread \in {1, 2, 3} /\ rootSegs = <<>> /\ nameSegs = <<>>
  \/ /\ Scenario = "path"
     /\ L = 0 /\ hasRange = FALSE /\ header = <<>> /\ ims = "absent" /\ method = "GET" /\ maxread = 1
     /\ rootSegs \in RootSpellings
     /\ nameSegs \in UNION {[1..n -> Segs] : n \in 1..3}
Next == UNCHANGED vars
Spec == Init /\ [][Next]_vars

R == Respond(L, hasRange, header, ims, method)
SelfConsistent(r) == r.status = 206 /\ Len(r.cr) = 3 /\ 0 <= r.cr[1] /\ r.cr[1] <= r.cr[2] /\ r.cr[2] < L /\ r.cr[3] = L
                     /\ r.cl = r.cr[2] - r.cr[1] + 1 /\ r.off = r.cr[1]
RangeInv ==
  Scenario \in {"range", "cond"} =>
  LET r == R  rfc == RfcRange(header, L)  rangeOn == hasRange /\ header # <<>> IN
  /\ r.status \in {200, 206, 304, 416}
  /\ (ims \in {"equal", "newer"}) => (r.status = 304 /\ r.len = 0)
  /\ (ims \notin {"equal", "newer"} /\ rangeOn /\ rfc.g /\ rfc.sat) =>
        (r.status = 206 /\ r.cr = <<rfc.first, rfc.last, L>> /\ r.cl = rfc.last - rfc.first + 1 /\ r.off = rfc.first)
  /\ (ims \notin {"equal", "newer"} /\ rangeOn /\ rfc.g /\ ~rfc.sat) => r.status = 416
  /\ (ims \notin {"equal", "newer"} /\ rangeOn /\ ~rfc.g) => (r.status = 416 \/ SelfConsistent(r))
  /\ (ims \notin {"equal", "newer"} /\ ~rangeOn) => (r.status = 200 /\ r.cl = L /\ r.off = 0)
  /\ (method = "HEAD") => r.len = 0
  /\ (method = "GET" /\ r.status = 206) => r.len = r.cl
  /\ (method = "GET" /\ r.status = 200) => r.len = L
ChunkInv ==
  Scenario \in {"range", "cond"} =>
  LET r == R IN (r.status = 206 /\ method = "GET") =>
     LET ch == IterRange(L - r.off, r.len, maxread, TRUE) IN
     /\ SumSeq(ch) = r.len
     /\ \A i \in 1..Len(ch) : ch[i] >= 1 /\ ch[i] <= maxread
\* C16: a name is served only if its normalised location lies strictly inside the normalised root
PathInv ==
  Scenario = "path" =>
  LET loc == Locate(rootSegs, nameSegs) IN
  /\ loc.root = <<"b", "root">>
  /\ (loc.inside /\ loc.full \in Files) => IsPrefixSeq(<<"b", "root">>, loc.full)
  /\ (loc.full \in Files /\ ~IsPrefixSeq(<<"b", "root">>, loc.full)) => ~loc.inside
=============================================================================
