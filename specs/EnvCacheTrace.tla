--------------------------- MODULE EnvCacheTrace ----------------------------
(* Recorded call sequences on a real Request (request[k] = value, request.<p>) *)
(* checked against EnvCache with the as-is invalidation table.  A read is      *)
(* logged with the set of snapshots that explain the value it returned (the    *)
(* harness finds them by evaluating the property on fresh requests); the model *)
(* must produce one of them.  register 1: traces the model explains; register  *)
(* 3: <<tid, first step it does not explain>>.                                 *)
EXTENDS EnvCache, Json, IOUtils, TLCExt
Traces == JsonDeserialize(IOEnv.TRACE_FILE)
VARIABLES tid, l
tvars == <<vars, tid, l>>
T == Traces[tid]
TInit == tid \in 1..Len(Traces) /\ l = 1 /\ Init
TStep == /\ l <= Len(T)
         /\ LET o == T[l] IN
            IF o.op = "set" THEN (IF env[o.k] # o.v \/ o.k = "wsgi.input" THEN Set(o.k, o.v) ELSE UNCHANGED vars)
            ELSE Read(o.p) /\ \E i \in 1..Len(o.cands) : \A k \in TransKeys(o.p) : o.cands[i][k] = cache'[o.p][k]
         /\ l' = l + 1 /\ UNCHANGED tid
TSpec == TInit /\ [][TStep]_tvars
Bookkeeping ==
  /\ (l = Len(T) + 1 => TLCSet(1, TLCGet(1) \cup {tid}))
  /\ TLCSet(3, [TLCGet(3) EXCEPT ![tid] = IF @ < l THEN l ELSE @])
ASSUME TLCSet(1, {}) /\ TLCSet(3, [i \in 1..Len(Traces) |-> 0])
Report == /\ PrintT(<<"MECH_MISSING", ToJson((1..Len(Traces)) \ TLCGet(1))>>)
          /\ PrintT(<<"PROP_FAILS", ToJson({})>>)
          /\ PrintT(<<"REACHED", ToJson(TLCGet(3))>>)
NoKeys == {}
=============================================================================
