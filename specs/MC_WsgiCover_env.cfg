SPECIFICATION Spec
CONSTANTS Scenario = "env"
INVARIANT Emit
CHECK_DEADLOCK FALSE
