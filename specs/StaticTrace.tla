----------------------------- MODULE StaticTrace ----------------------------
(* Recorded executions of the real static_file (through the default          *)
(* application's WSGI entry point) and of _file_iter_range.                   *)
(* kind "serve": L, hasRange, header, ims, method, status, cr ([] or          *)
(*   [first,last,total]), crRaw, cl, bodyLen, bodyOff (offset of the body in  *)
(*   the file, -1 if it is not a slice of it), chunks, maxread, hdrs/headHdrs *)
(* kind "iter":  L, off, n, maxread, chunks, bodyOff                          *)
(* kind "path":  rootSegs, nameSegs, files, status, rootNorm, opened          *)
EXTENDS Static, Json, IOUtils, TLCExt
Traces == JsonDeserialize(IOEnv.TRACE_FILE)
VARIABLE tid
T == Traces[tid]
Set(seq) == {seq[i] : i \in 1..Len(seq)}
ServeFails(t) ==
  LET rangeOn == t.hasRange /\ t.header # <<>>
      rfc == RfcRange(t.header, t.L)
      cond == t.ims \in {"equal", "newer"}
      cons == t.status = 206 /\ Len(t.cr) = 3 /\ 0 <= t.cr[1] /\ t.cr[1] <= t.cr[2] /\ t.cr[2] < t.L /\ t.cr[3] = t.L
              /\ t.cl = t.cr[2] - t.cr[1] + 1
              /\ (t.method = "GET" => (t.bodyLen = t.cl /\ t.bodyOff = t.cr[1]))
  IN
  (IF t.status \notin {200, 206, 304, 416} THEN {"Status"} ELSE {})
  \cup (IF cond /\ ~(t.status = 304 /\ t.bodyLen = 0) THEN {"Conditional"} ELSE {})
  \cup (IF ~cond /\ t.status = 304 THEN {"Conditional"} ELSE {})
  \cup (IF ~cond /\ rangeOn /\ rfc.g /\ rfc.sat /\ ~(cons /\ t.cr[1] = rfc.first /\ t.cr[2] = rfc.last) THEN {"RangeRFC"} ELSE {})
  \cup (IF ~cond /\ rangeOn /\ rfc.g /\ ~rfc.sat /\ t.status # 416 THEN {"RangeRFC"} ELSE {})
  \cup (IF ~cond /\ rangeOn /\ ~rfc.g /\ ~(t.status = 416 \/ cons) THEN {"RangeConsistent"} ELSE {})
  \cup (IF ~cond /\ ~rangeOn /\ ~(t.status = 200 /\ t.cl = t.L /\ (t.method = "GET" => (t.bodyLen = t.L /\ (t.L = 0 \/ t.bodyOff = 0))))
        THEN {"WholeFile"} ELSE {})
  \cup (IF t.method = "HEAD" /\ t.bodyLen # 0 THEN {"HeadNoBody"} ELSE {})
  \cup (IF t.headHdrs # t.hdrs THEN {"HeadSameHeaders"} ELSE {})
  \cup (IF \E i \in 1..Len(t.chunks) : t.chunks[i] > t.maxread THEN {"ChunkSize"} ELSE {})
IterFails(t) ==
  LET want == Min2(t.n, Max2(t.L - t.off, 0)) IN
  (IF \E i \in 1..Len(t.chunks) : t.chunks[i] > t.maxread \/ t.chunks[i] < 1 THEN {"ChunkSize"} ELSE {})
  \cup (IF SumSeq(t.chunks) # want \/ (want > 0 /\ t.bodyOff # t.off) THEN {"IterSlice"} ELSE {})
StartsWithSeq(s, p) == Len(p) <= Len(s) /\ SubSeq(s, 1, Len(p)) = p
PathFails(t) ==
  \* a conditional request (If-Modified-Since not older than the file) may be answered 304, but only for a file inside the root
  (IF t.status \notin {200, 403, 404} /\
      ~(t.status = 304 /\ t.ims /\ LET loc == Locate(t.rootSegs, t.nameSegs) IN loc.inside /\ loc.full \in Set(t.files))
   THEN {"PathStatus"} ELSE {})
  \cup (IF \E i \in 1..Len(t.opened) : ~StartsWithSeq(t.opened[i], t.rootNorm \o <<SLASH>>) THEN {"OpenedOutside"} ELSE {})
  \cup (IF t.status = 200 /\ Len(t.opened) # 1 THEN {"ServedWithoutOpen"} ELSE {})
PropFails(t) == IF t.kind = "serve" THEN ServeFails(t) ELSE IF t.kind = "iter" THEN IterFails(t) ELSE PathFails(t)
MechOK(t) ==
  IF t.kind = "serve" THEN
     LET r == Respond(t.L, t.hasRange, t.header, t.ims, t.method) IN
     /\ r.status = t.status /\ r.cr = t.cr
     /\ (t.status \in {200, 206} => (r.cl = t.cl /\ r.len = t.bodyLen))
  ELSE IF t.kind = "iter" THEN IterRange(Max2(t.L - t.off, 0), t.n, t.maxread, TRUE) = t.chunks
  ELSE LET loc == Locate(t.rootSegs, t.nameSegs) IN
       t.status = (IF ~loc.inside THEN 403 ELSE IF loc.full \in Set(t.files) THEN (IF t.ims THEN 304 ELSE 200) ELSE 404)
Init == tid \in 1..Len(Traces)
Next == UNCHANGED tid
Spec == Init /\ [][Next]_tid
Bookkeeping ==
  /\ (MechOK(T) => TLCSet(1, TLCGet(1) \cup {tid}))
  /\ LET f == PropFails(T) IN (f # {} => TLCSet(2, TLCGet(2) \cup {<<tid, c>> : c \in f}))
ASSUME TLCSet(1, {}) /\ TLCSet(2, {})
Report == /\ PrintT(<<"MECH_MISSING", ToJson((1..Len(Traces)) \ TLCGet(1))>>)
          /\ PrintT(<<"PROP_FAILS", ToJson(TLCGet(2))>>)
=============================================================================
