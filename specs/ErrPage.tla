------------------------------- MODULE ErrPage ------------------------------
(* C20: framework-generated error pages (error_render.render, the JSON       *)
(* branch of Ombott.default_error_handler, the last-resort page of           *)
(* Ombott.wsgi).  Request-controlled text reaches the page through           *)
(*   request.url = scheme://Host + urlquote(fullpath) + ? + QUERY_STRING     *)
(*   -> html.escape -> repr -> str.format(template line)                     *)
(* and, on the last-resort page, PATH_INFO -> html_escape.                   *)
(* Text is Seq(Nat).  The request-controlled payload is enclosed in the       *)
(* marker letters zq ... qz so that its rendering can be located in a page.  *)
EXTENDS Text, TLC

LT == 60  GT == 62  APOS == 39  LB == 123  RB == 125  BSL == 92
Ent(name) == <<AMP>> \o name \o <<SEMI>>
E_amp == Ent(<<97, 109, 112>>)            \* &amp;
E_lt == Ent(<<108, 116>>)                 \* &lt;
E_gt == Ent(<<103, 116>>)                 \* &gt;
E_quot == Ent(<<113, 117, 111, 116>>)     \* &quot;
E_x27 == Ent(<<35, 120, 50, 55>>)         \* &#x27;   (html.escape)
E_039 == Ent(<<35, 48, 51, 57>>)          \* &#039;   (ombott html_escape)
Entities == {E_amp, E_lt, E_gt, E_quot, E_x27, E_039}
EscCh(c, apos) == IF c = AMP THEN E_amp ELSE IF c = LT THEN E_lt ELSE IF c = GT THEN E_gt
                  ELSE IF c = QUOTE THEN E_quot ELSE IF c = APOS THEN apos ELSE <<c>>
HtmlEscape(s) == Flatten([j \in 1..Len(s) |-> EscCh(s[j], E_x27)])       \* Python html.escape(quote=True)
HtmlEscapeO(s) == Flatten([j \in 1..Len(s) |-> EscCh(s[j], E_039)])      \* ombott.common_helpers.html_escape
\* urllib.parse.quote(s) with safe='/': unreserved and '/' kept, the rest percent-encoded (ASCII + Latin-1/BMP via UTF-8)
HexUp(n) == IF n < 10 THEN 48 + n ELSE 55 + n
Pct(b) == <<PCT, HexUp(b \div 16), HexUp(b % 16)>>
Unres(c) == c \in 48..57 \/ c \in 65..90 \/ c \in 97..122 \/ c \in {95, 46, 45, 126, SLASH}
Utf8b(c) == IF c < 128 THEN <<c>> ELSE IF c < 2048 THEN <<192 + (c \div 64), 128 + (c % 64)>>
            ELSE <<224 + (c \div 4096), 128 + ((c \div 64) % 64), 128 + (c % 64)>>
UrlQuote(s) == Flatten([j \in 1..Len(s) |-> IF Unres(s[j]) THEN <<s[j]>> ELSE Flatten([k \in 1..Len(Utf8b(s[j])) |-> Pct(Utf8b(s[j])[k])])])
\* repr() of a str without quotes or control characters: backslashes are doubled (the surrounding quotes are not part of the region)
ReprBody(s) == Flatten([j \in 1..Len(s) |-> IF s[j] = BSL THEN <<BSL, BSL>> ELSE <<s[j]>>])
\* str.format on a template: fields are replaced by values, values are never re-scanned
\* template = sequence of [lit] / [field] items
FormatT(tpl, ctx) == Flatten([j \in 1..Len(tpl) |-> IF tpl[j].f = "" THEN tpl[j].lit ELSE ctx[tpl[j].f]])

\* ---- the rendering of a payload that arrived through a channel, as the code builds it
\* channels: "path" (PATH_INFO, decodable), "query" (QUERY_STRING), "host" (Host header)
UrlPiece(payload, ch) == IF ch = "path" THEN UrlQuote(payload) ELSE payload
RenderedUrlPiece(payload, ch) == ReprBody(HtmlEscape(UrlPiece(payload, ch)))
RenderedCritical(payload) == HtmlEscapeO(payload)

\* ---- what the property demands of the region of the page that reproduces request-controlled text
\* (a) no raw markup character, every & starts a known entity
RECURSIVE SafeFrom(_, _)
SafeFrom(s, i) ==
  IF i > Len(s) THEN TRUE
  ELSE IF s[i] \in {LT, GT, QUOTE, APOS} THEN FALSE
  ELSE IF s[i] = AMP THEN
     (\E e \in Entities : i + Len(e) - 1 <= Len(s) /\ SubSeq(s, i, i + Len(e) - 1) = e /\ SafeFrom(s, i + Len(e)))
  ELSE SafeFrom(s, i + 1)
NoMarkup(region) == SafeFrom(region, 1)
\* (b) inert: undoing the entity escaping and the backslash doubling gives back the text as sent (braces literally)
RECURSIVE Unescape(_, _)
Unescape(s, bs) ==     \* bs: also undo the backslash doubling of repr()
  IF s = <<>> THEN <<>>
  ELSE IF Head(s) = AMP THEN
     (IF StartsWith(s, E_amp) THEN <<AMP>> \o Unescape(From(s, Len(E_amp)), bs)
      ELSE IF StartsWith(s, E_lt) THEN <<LT>> \o Unescape(From(s, Len(E_lt)), bs)
      ELSE IF StartsWith(s, E_gt) THEN <<GT>> \o Unescape(From(s, Len(E_gt)), bs)
      ELSE IF StartsWith(s, E_quot) THEN <<QUOTE>> \o Unescape(From(s, Len(E_quot)), bs)
      ELSE IF StartsWith(s, E_x27) THEN <<APOS>> \o Unescape(From(s, Len(E_x27)), bs)
      ELSE IF StartsWith(s, E_039) THEN <<APOS>> \o Unescape(From(s, Len(E_039)), bs)
      ELSE <<AMP>> \o Unescape(Tail(s), bs))
  ELSE IF bs /\ Head(s) = BSL /\ Len(s) >= 2 /\ s[2] = BSL THEN <<BSL>> \o Unescape(From(s, 2), bs)
  ELSE <<Head(s)>> \o Unescape(Tail(s), bs)
Inert(region, payload, ch, critical) ==
  LET u == Unescape(region, ~critical) IN
  u = payload \/ (ch = "path" /\ u = UrlQuote(payload)) \/ (critical /\ u = payload)

\* ---- JSON error body: {"body": str|null, "exception": str, "traceback": str|null}
\* a JSON string literal starting at 1-based i (s[i] = '"'): index after the closing quote, or 0
RECURSIVE JStrEnd(_, _)
JStrEnd(s, i) ==
  IF i > Len(s) THEN 0
  ELSE IF s[i] = QUOTE THEN i + 1
  ELSE IF s[i] = BSL THEN (IF i + 1 > Len(s) THEN 0 ELSE JStrEnd(s, i + 2))
  ELSE IF s[i] < 32 THEN 0
  ELSE JStrEnd(s, i + 1)
NULLW == <<110, 117, 108, 108>>
\* value (string or null) at i: index after it, or 0
JValEnd(s, i) == IF i <= Len(s) /\ s[i] = QUOTE THEN JStrEnd(s, i + 1)
                 ELSE IF StartsWithAt(s, NULLW, i - 1) THEN i + 4 ELSE 0
RECURSIVE JMembers(_, _, _)
JMembers(s, i, n) ==   \* i at the opening quote of a key; n members seen
  LET k == JStrEnd(s, i + 1) IN
  IF i > Len(s) \/ s[i] # QUOTE \/ k = 0 \/ k + 1 > Len(s) \/ s[k] # COLON \/ s[k + 1] # SP THEN 0
  ELSE LET v == JValEnd(s, k + 2) IN
    IF v = 0 \/ v > Len(s) THEN 0
    ELSE IF s[v] = RB THEN (IF v = Len(s) THEN n + 1 ELSE 0)
    ELSE IF s[v] = COMMA /\ v + 1 <= Len(s) /\ s[v + 1] = SP THEN JMembers(s, v + 2, n + 1)
    ELSE 0
ValidJsonObject(s) == Len(s) >= 2 /\ s[1] = LB /\ (s = <<LB, RB>> \/ JMembers(s, 2, 0) > 0)
=============================================================================
