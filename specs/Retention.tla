----------------------------- MODULE Retention ------------------------------
(* C09, second clause: serving N requests keeps at most a constant number of *)
(* per-request objects alive.  The harness measures, per request kind, the   *)
(* number of live weak references (environ dicts, input streams) after       *)
(* N1 < N2 (< N3) requests and gc.collect(); the judgement is made here:     *)
(* the count must not grow with N beyond a fixed bound.                      *)
EXTENDS Naturals, Sequences, TLC, Json, IOUtils, TLCExt
Rows == JsonDeserialize(IOEnv.TRACE_FILE)
Bound == 8
\* rows that count ALL gc-tracked objects (per 100 requests) carry their own bound: a leak of one object per request shows as
\* >= 100, one-time cache fills of the interpreter as a handful
Grows(r) == LET n == Len(r.live) IN r.live[n] > r.live[1] /\ r.live[n] > (IF "bound" \in DOMAIN r THEN r.bound ELSE Bound)
VARIABLE x
Init == x = 0
Next == UNCHANGED x
Spec == Init /\ [][Next]_x
ASSUME TLCSet(1, 0)
Report == TLCGet(1) = 0 /\ PrintT(<<"RETENTION_FAILS", ToJson({i \in 1..Len(Rows) : Grows(Rows[i])})>>)
=============================================================================
