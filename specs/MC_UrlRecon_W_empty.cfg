SPECIFICATION Spec
CONSTANTS
 MaxLen = 4
INVARIANT W_empty
CHECK_DEADLOCK FALSE
