----------------------------- MODULE BodyTrace -----------------------------
(* Trace validation of recorded executions of the real body reader           *)
(* (Request._body / _body_read) against Body.tla.  One TLC run validates a   *)
(* whole batch: tid is chosen in Init.                                       *)
(*   register 1: set of tids whose every read event was matched by the       *)
(*               machine and whose final outcome agrees (mechanism level)    *)
(*   register 2: set of <<tid, clause>> property-level failures, judged from *)
(*               the recorded input and outcome only (BodyAbs statements)    *)
EXTENDS Body, Json, IOUtils, TLCExt
Traces == JsonDeserialize(IOEnv.TRACE_FILE)
VARIABLES tid, l
tvars == <<vars, tid, l>>
T == Traces[tid]

AskOf == IF phase \in {"loop", "data"} THEN Min2(rest, buf)
         ELSE IF phase = "crlf" THEN 2 ELSE 1

\* ---- property level, from the record alone
RECURSIVE AsksWithinCL(_, _, _, _)
AsksWithinCL(ev, i, got, lim) ==
  i > Len(ev) \/ (ev[i][1] <= lim - got /\ AsksWithinCL(ev, i + 1, got + ev[i][2], lim))
RECURSIVE GotTotal(_, _)
GotTotal(ev, i) == IF i > Len(ev) THEN 0 ELSE ev[i][2] + GotTotal(ev, i + 1)
PropFails0(t) ==
  LET n == Min2(Max2(t.cl, 0), Len(t.inp))
      ref == IF t.mode = "chunked" THEN RefDecode(t.inp) ELSE [st |-> "na"]
      size == IF t.mode = "cl" THEN n ELSE IF ref.st = "ok" THEN Len(ref.pay) ELSE -1
  IN
  (IF t.mode = "cl" /\ t.phase = "done" /\ t.out # SubSeq(t.inp, 1, n) THEN {"ClExact"} ELSE {})
  \cup (IF t.mode = "cl" /\ ~AsksWithinCL(t.ev, 1, 0, Max2(t.cl, 0)) THEN {"ClNoOverRead"} ELSE {})
  \* with an injected fault (no temporary file can be created) the request may fail as a server error; what it may not do is
  \* succeed with a body above the threshold held in memory (clause Spooling below)
  \cup (IF t.phase \notin {"done", "e400", "e413"} /\ ~(t.fault /\ t.phase = "status500") THEN {"Outcome"} ELSE {})
  \cup (IF t.mode = "cl" /\ t.phase = "e400" THEN {"ClOutcome"} ELSE {})
  \cup (IF t.mode = "chunked" /\ t.kind = "legal" /\ ref.st # "ok" THEN {"GeneratorNotLegal"} ELSE {})
  \cup (IF t.mode = "chunked" /\ t.kind = "legal" /\ (t.maxBody < 0 \/ Len(t.expect) <= t.maxBody) /\ ~(t.phase = "done" /\ t.out = t.expect)
        THEN {"LegalAccepted"} ELSE {})
  \cup (IF t.mode = "chunked" /\ ref.st \in {"trunc", "nocrlf"} /\ t.phase = "done" THEN {"TruncRejected"} ELSE {})
  \cup (IF t.mode = "chunked" /\ ref.st = "ok" /\ t.phase = "done" /\ t.out # ref.pay THEN {"RefExact"} ELSE {})
  \* over the limit => 413; within => accepted.  A declared Content-Length above the limit may be
  \* refused early even if the stream then delivers less (weaker reading).
  \cup (IF t.maxBody >= 0 /\ size >= 0 /\ (t.mode = "cl" \/ t.kind = "legal") /\
           ((size > t.maxBody /\ t.phase # "e413")
            \/ (size <= t.maxBody /\ t.phase # "done" /\ ~(t.mode = "cl" /\ t.cl > t.maxBody /\ t.phase = "e413")))
        THEN {"LimitVerdict"} ELSE {})
  \cup (IF t.maxBody < 0 /\ t.phase = "e413" THEN {"LimitVerdict"} ELSE {})
  \cup (IF t.maxBody >= 0 /\ t.mode = "cl" /\ GotTotal(t.ev, 1) > t.maxBody + t.buf THEN {"ReadBound"} ELSE {})
  \cup (IF t.maxBody >= 0 /\ Len(t.out) > t.maxBody + t.buf THEN {"ReadBound"} ELSE {})
  \cup (IF t.phase = "done" /\ (t.spooled # (Len(t.out) > t.buf)) THEN {"Spooling"} ELSE {})
  \* every presentation of the body (request.body again; a peek, then a full read) is the same bytes
  \cup (IF t.phase = "done" /\ t.reread = "differs" THEN {"Presentations"} ELSE {})

\* a request served under an injected fault may end as a server error and is then not judged further
PropFails(t) == IF t.fault /\ t.phase = "status500" THEN {} ELSE PropFails0(t)

TInit == /\ tid \in 1..Len(Traces)
         /\ l = 1
         /\ InitReader(Traces[tid].mode, Traces[tid].inp, Traces[tid].cl, Traces[tid].buf, Traces[tid].maxBody)
TStep == /\ l <= Len(T.ev)
         /\ ~Terminal
         /\ AskOf = T.ev[l][1]
         /\ Next
         /\ pos' - pos = T.ev[l][2]
         /\ l' = l + 1 /\ UNCHANGED tid
\* ClFinish takes no read
TSilent == /\ l = Len(T.ev) + 1 /\ ClFinish /\ UNCHANGED <<tid, l>>
TNext == TStep \/ TSilent
TSpec == TInit /\ [][TNext]_tvars

MechOK == l = Len(T.ev) + 1 /\ Terminal /\ phase = T.phase /\ (phase = "done" => (out = T.out /\ spooled = T.spooled))
Bookkeeping ==
  /\ (MechOK => TLCSet(1, TLCGet(1) \cup {tid}))
  /\ (l = 1 => LET f == PropFails(T) IN (f # {} => TLCSet(2, TLCGet(2) \cup {<<tid, c>> : c \in f})))
ASSUME TLCSet(1, {}) /\ TLCSet(2, {})
Report == /\ PrintT(<<"MECH_MISSING", ToJson((1..Len(Traces)) \ TLCGet(1))>>)
          /\ PrintT(<<"PROP_FAILS", ToJson(TLCGet(2))>>)
=============================================================================
