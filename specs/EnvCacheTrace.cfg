SPECIFICATION TSpec
CONSTANTS
  MaxV = 3
  FullInval = FALSE
  VarKeys <- NoKeys
CONSTRAINT Bookkeeping
POSTCONDITION Report
CHECK_DEADLOCK FALSE
