-------------------------- MODULE MC_RuleParserCover ------------------------
EXTENDS MC_RuleParser, Json
Emit == PrintT(<<"W", ToJson([text |-> text, want |-> Meaning(rule, <<>>, <<>>, <<>>)])>>)
=============================================================================
