SPECIFICATION SSpec
CONSTANTS PerInstance = FALSE
INVARIANT Emit
CHECK_DEADLOCK FALSE
