SPECIFICATION Spec
CONSTANTS
  MaxV = 1
  FullInval = TRUE
  VarKeys <- K_body
VIEW View
INVARIANT TypeOK
INVARIANT Coherent
INVARIANT NoThinAir
CHECK_DEADLOCK FALSE
