----------------------------- MODULE MC_Router ------------------------------
(* The router as a system: RadiRouter's three indexes (routes, named_routes, *)
(* hooks) over the radix tree, driven by every public edit operation, and    *)
(* the reference state `abs` (what has been registered and not removed).     *)
(* Because the universe of rules is finite the reachable state graph is      *)
(* finite: TLC explores every edit history of any length (thorough) or up to *)
(* MaxOps (quick), and evaluates every invariant over all probe paths and    *)
(* verbs in every state.                                                     *)
EXTENDS Router
CONSTANTS MaxOps, Universe, HookRules, Alphabet, ProbeLen, CheckNames

VARIABLES tree,      \* radix tree
          routes,    \* RadiRouter.routes: pattern -> [filters, names, meths (method -> [h (handler id), names (RouteMethod.params)])]
          named,     \* RadiRouter.named_routes: name -> pattern
          hooksIdx,  \* RadiRouter.hooks: set of hook patterns
          abs,       \* reference: pattern -> [filters, meths (method -> [h, names])]
          last       \* outcome of the last operation ("ok" | "rejected:<why>")
vars == <<tree, routes, named, hooksIdx, abs, last>>

Dom(f) == DOMAIN f
Drop(f, ks) == [x \in DOMAIN f \ ks |-> f[x]]
Upd(f, k, v) == [x \in DOMAIN f \cup {k} |-> IF x = k THEN v ELSE f[x]]
NoName == ""

Init == /\ tree = RootNode /\ routes = <<>> /\ named = <<>> /\ hooksIdx = {} /\ abs = <<>> /\ last = "init"

\* ---- RadiRouter._add(rule, methods, handler, name, overwrite)
\* r = [id, pat, filters, names, meths (set of method names), name]
Add(r, overwrite) ==
  LET m == Match(tree, r.pat, r.filters)
      exists == m.mm = None /\ NodeAt(tree, m.ip).data # <<>>
  IN
  IF ~exists /\ m.mm = "FILTER" THEN     \* radidict.add raises: nothing installed
     /\ last' = "rejected:filter" /\ UNCHANGED <<tree, routes, named, hooksIdx, abs>>
  ELSE
    LET res == IF exists THEN [ok |-> TRUE, t |-> tree]
               ELSE SetRoute(tree, r.pat, r.filters, r.names, <<r.pat>>, <<>>, FALSE)
        cur == IF exists THEN routes[r.pat] ELSE [filters |-> r.filters, names |-> r.names, meths |-> <<>>]
        acur == IF r.pat \in Dom(abs) THEN abs[r.pat] ELSE [filters |-> r.filters, meths |-> <<>>]
        clash == ~overwrite /\ (Dom(cur.meths) \cap r.meths) # {}
        newm == [x \in Dom(cur.meths) \cup r.meths |-> IF x \in r.meths THEN [h |-> r.id, names |-> r.names] ELSE cur.meths[x]]
        anewm == [x \in Dom(acur.meths) \cup r.meths |-> IF x \in r.meths THEN [h |-> r.id, names |-> r.names] ELSE acur.meths[x]]
        routes1 == IF clash THEN (IF exists THEN routes ELSE Upd(routes, r.pat, cur)) ELSE Upd(routes, r.pat, [cur EXCEPT !.meths = newm])
        abs1 == IF clash THEN (IF exists THEN abs ELSE Upd(abs, r.pat, acur)) ELSE Upd(abs, r.pat, [acur EXCEPT !.meths = anewm])
        nameClash == r.name # NoName /\ ~overwrite /\ r.name \in Dom(named) /\ named[r.name] # r.pat
    IN /\ tree' = res.t
       /\ routes' = routes1 /\ abs' = abs1
       /\ named' = IF clash \/ nameClash \/ r.name = NoName THEN named ELSE Upd(named, r.name, r.pat)
       /\ last' = IF clash THEN "rejected:method" ELSE IF nameClash THEN "rejected:name" ELSE "ok"
       /\ UNCHANGED hooksIdx

NamesOf(pats) == {n \in Dom(named) : named[n] \in pats}
\* RadiRouter.remove(rule) / remove(route_obj) / remove(name=...)
RemoveRule(pat) ==
  /\ tree' = RemoveRoute(tree, pat, FALSE)
  /\ routes' = Drop(routes, {pat}) /\ abs' = Drop(abs, {pat})
  /\ named' = Drop(named, NamesOf({pat}))
  /\ last' = "ok" /\ UNCHANGED hooksIdx
RemoveName(nm) ==
  /\ nm \in Dom(named)
  /\ LET pat == named[nm] IN
     /\ tree' = RemoveRoute(tree, pat, FALSE)
     /\ routes' = Drop(routes, {pat}) /\ abs' = Drop(abs, {pat})
     /\ named' = Drop(named, NamesOf({pat}))
  /\ last' = "ok" /\ UNCHANGED hooksIdx
\* remove('/prefix*')
RemovePrefix(pre) ==
  LET gone == {p \in Dom(routes) : StartsWith(p, pre)} IN
  /\ tree' = RemoveRoute(tree, Append(pre, STAR), FALSE)
  /\ routes' = Drop(routes, gone) /\ abs' = Drop(abs, gone)
  /\ named' = Drop(named, NamesOf(gone))
  /\ last' = "ok" /\ UNCHANGED hooksIdx
\* Route.remove_method
RemoveMethod(pat, meth) ==
  /\ pat \in Dom(routes) /\ meth \in Dom(routes[pat].meths)
  /\ routes' = [routes EXCEPT ![pat].meths = Drop(@, {meth})]
  /\ abs' = [abs EXCEPT ![pat].meths = Drop(@, {meth})]
  /\ last' = "ok" /\ UNCHANGED <<tree, named, hooksIdx>>
\* RadiRouter.add_hook / remove_hook (SIMPLE hooks)
AddHook(hr) ==
  LET m == Match(tree, hr.pat, <<>>)
      has == m.mm = None /\ NodeAt(tree, m.ip).hooks # <<>>
  IN IF has THEN last' = "ok" /\ UNCHANGED <<tree, routes, named, hooksIdx, abs>>    \* hook_installer mutates the existing list in place
     ELSE LET res == SetRoute(tree, hr.pat, hr.filters, hr.names, <<>>, <<hr.pat>>, FALSE) IN
          /\ tree' = res.t
          /\ hooksIdx' = IF res.ok THEN hooksIdx \cup {hr.pat} ELSE hooksIdx
          /\ last' = IF res.ok THEN "ok" ELSE "rejected:filter"
          /\ UNCHANGED <<routes, named, abs>>
RemoveHook(hr) ==
  /\ tree' = RemoveRoute(tree, hr.pat, TRUE)
  /\ hooksIdx' = hooksIdx \ {hr.pat}
  /\ last' = "ok" /\ UNCHANGED <<routes, named, abs>>

Prefixes == {<<97>>, <<97, 100>>, <<97, 100, SEP>>}
HookFree(pre) == \A h \in HookRules : ~StartsWith(h.pat, pre)
Next ==
  \/ \E r \in Universe, ow \in BOOLEAN : Add(r, ow)
  \/ \E r \in Universe : RemoveRule(r.pat)
  \/ \E r \in Universe : r.name # NoName /\ RemoveName(r.name)
  \/ \E pre \in Prefixes : HookFree(pre) /\ RemovePrefix(pre)
  \/ \E r \in Universe : \E meth \in r.meths : RemoveMethod(r.pat, meth)
  \/ \E h \in HookRules : AddHook(h) \/ RemoveHook(h)
Spec == Init /\ [][Next]_vars
Depth == TLCGet("level") <= MaxOps

-----------------------------------------------------------------------------
\* probe paths: every sequence up to ProbeLen over Alphabet, plus the instances of the universe's patterns
\* (wildcards replaced by sample values) and their one-symbol mutations
RECURSIVE Inst(_, _)
Inst(pat, v) == IF pat = <<>> THEN <<>> ELSE (IF Head(pat) = TOKEN THEN v ELSE <<Head(pat)>>) \o Inst(Tail(pat), v)
Vals == {<<49>>, <<98>>, <<TOKEN>>, <<49, 49>>, <<45, 49>>, <<98, SEP, 101>>}
MutChars == {98, TOKEN, SEP, 49}
Mutants(p) == {p} \cup (IF p = <<>> THEN {} ELSE {SubSeq(p, 1, Len(p) - 1), SubSeq(p, 2, Len(p))})
              \cup {Append(p, c) : c \in MutChars}
              \cup UNION {{[p EXCEPT ![i] = c] : c \in MutChars} : i \in 1..Len(p)}
InstProbes == UNION {Mutants(Inst(r.pat, v)) : r \in Universe \cup HookRules, v \in Vals}
Probes == {p \in SeqsUpTo(Alphabet, ProbeLen) \cup InstProbes : p = <<>> \/ (p[1] # SEP /\ p[Len(p)] # SEP)}
Verbs == {"GET", "HEAD", "POST", "DELETE"}

\* what the implementation answers (RadiRouter.resolve through Ombott.to_route), from the tree lookup g
ImplFrom(g, verb) ==
  IF ~g.found THEN [k |-> "404"]
  ELSE LET rt == routes[g.data]
           meth == FirstIn(Chain405(verb), Dom(rt.meths)) IN
       IF meth = None THEN [k |-> "405", allow |-> Dom(rt.meths)]
       ELSE LET e == rt.meths[meth]
                nms == IF e.names # <<>> THEN e.names ELSE g.pkeys IN     \* RouteMethod.params or the node's PARAMS
            [k |-> "ok", h |-> e.h, params |-> NamedParams(nms, g.pvals), hooks |-> g.hooks,
             names |-> {n \in {nms[j] : j \in 1..Len(nms)} : ~Anon(n)}]
ImplResolve(path, verb) == ImplFrom(Get(tree, path), verb)
\* what the property prescribes
RECURSIVE HooksFor(_, _, _, _)
HooksFor(pat, offs, j, hs) ==
  IF j > Len(pat) THEN <<>>
  ELSE LET h == SubSeq(pat, 1, j) IN
       (IF h \in hs THEN << <<IF j = 0 THEN 0 ELSE offs[j], h>> >> ELSE <<>>) \o HooksFor(pat, offs, j + 1, hs)
\* the rule selected by the rule-by-rule matcher over a reference state A: [found, p, m]
AbsSelectIn(A, path) ==
  LET ms == {p \in Dom(A) : RefMatch([pat |-> p, filters |-> A[p].filters], path).ok} IN
  IF ms = {} THEN [found |-> FALSE]
  ELSE LET p == CHOOSE p \in ms : \A q \in ms \ {p} : Prefer(p, q) IN
       [found |-> TRUE, p |-> p, m |-> RefMatch([pat |-> p, filters |-> A[p].filters], path)]
AbsFromIn(A, H, sel, verb) ==
  IF ~sel.found THEN [k |-> "404"]
  ELSE LET p == sel.p
           meth == FirstIn(Chain405(verb), Dom(A[p].meths)) IN
       IF meth = None THEN [k |-> "405", allow |-> Dom(A[p].meths)]
       ELSE LET e == A[p].meths[meth] IN
            [k |-> "ok", h |-> e.h, params |-> NamedParams(e.names, sel.m.vals), hooks |-> HooksFor(p, sel.m.offs, 0, H),
             names |-> {n \in {e.names[j] : j \in 1..Len(e.names)} : ~Anon(n)}]
AbsSelect(path) == AbsSelectIn(abs, path)
AbsFrom(sel, verb) == AbsFromIn(abs, hooksIdx, sel, verb)
AbsResolve(path, verb) == AbsFrom(AbsSelect(path), verb)
\* C01 + C02 + hook firing of C11: the tree answers exactly as the rule-by-rule reference
Same(a, b) ==
  /\ a.k = b.k
  /\ (a.k = "405" => a.allow = b.allow)
  /\ (a.k = "ok" => /\ a.h = b.h /\ a.hooks = b.hooks
                    /\ (CheckNames => (a.params = b.params /\ a.names = b.names))
                    /\ (~CheckNames => {x[2] : x \in a.params} = {x[2] : x \in b.params}))
AgreeResolve == \A p \in Probes :
   LET g == Get(tree, p)  sel == AbsSelect(p) IN \A v \in Verbs : Same(ImplFrom(g, v), AbsFrom(sel, v))
\* a unique preferred rule always exists (the reference is well defined)
RefDefined == \A p \in Probes :
   LET ms == {q \in Dom(abs) : RefMatch([pat |-> q, filters |-> abs[q].filters], p).ok} IN
   ms = {} \/ \E q \in ms : \A q2 \in ms \ {q} : Prefer(q, q2)
\* C11: indexes agree with the tree and with the reference state
IndexAgree ==
  /\ Dom(routes) = DataPats(tree, <<>>) /\ Dom(routes) = Dom(abs)
  /\ \A n \in Dom(named) : named[n] \in Dom(routes)
  /\ hooksIdx = HookPats(tree)
  /\ \A p \in Dom(routes) : Dom(routes[p].meths) = Dom(abs[p].meths) /\ \A x \in Dom(routes[p].meths) : routes[p].meths[x] = abs[p].meths[x]
\* C11: the edited tree answers every probe as a tree freshly built from the survivors
RECURSIVE BuildRoutes(_, _)
BuildRoutes(t, ps) == IF ps = {} THEN t
  ELSE LET p == CHOOSE x \in ps : TRUE IN
       BuildRoutes(SetRoute(t, p, routes[p].filters, routes[p].names, <<p>>, <<>>, FALSE).t, ps \ {p})
RECURSIVE BuildHooks(_, _)
BuildHooks(t, hs) == IF hs = {} THEN t
  ELSE LET h == CHOOSE x \in hs : TRUE
           hr == CHOOSE r \in HookRules : r.pat = h IN
       BuildHooks(SetRoute(t, h, hr.filters, hr.names, <<>>, <<h>>, FALSE).t, hs \ {h})
Fresh == BuildHooks(BuildRoutes(RootNode, Dom(routes)), hooksIdx)
FreshEquiv == LET f == Fresh IN \A p \in Probes : Get(tree, p) = Get(f, p)
\* C11, state equivalence beyond lookups: the edited tree refuses a registration (route or hook) for its wildcard type
\* exactly when a tree freshly built from the survivors refuses it -- no dead node keeps a filter alive
FreshVerdict == LET f == Fresh IN \A r \in Universe \cup HookRules :
   (Match(tree, r.pat, r.filters).mm = "FILTER") <=> (Match(f, r.pat, r.filters).mm = "FILTER")
=============================================================================
