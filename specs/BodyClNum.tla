----------------------------- MODULE BodyClNum -----------------------------
(* Numeric abstraction of Body.tla in Content-Length mode: the body is       *)
(* represented by its length only.  Justified by the invariant ClPrefix of   *)
(* MC_Body (out is always the prefix inp[1..pos]) and by the refinement      *)
(* property NumRefines checked by TLC in MC_Body_cl.cfg.  Used to validate   *)
(* recorded executions of any size (300 kB bodies) without holding bytes.    *)
EXTENDS Naturals, Integers
VARIABLES dataLen, cl, buf, maxBody, pos, rest, phase, outLen, spooled, over
nvars == <<dataLen, cl, buf, maxBody, pos, rest, phase, outLen, spooled, over>>
NMin(a, b) == IF a < b THEN a ELSE b
NMax(a, b) == IF a > b THEN a ELSE b
NAsk == NMin(rest, buf)
NRead(k) ==
  /\ phase = "loop" /\ rest > 0
  /\ k >= 0 /\ k <= NAsk /\ k <= dataLen - pos /\ ((k = 0) => (pos = dataLen))
  /\ pos' = pos + k
  /\ over' = (over \/ NAsk > cl - pos)
  /\ IF k = 0 THEN phase' = "done" /\ UNCHANGED <<rest, outLen, spooled>>
     ELSE /\ rest' = rest - k
          /\ outLen' = outLen + k
          /\ IF maxBody >= 0 /\ outLen + k > maxBody
             THEN phase' = "e413" /\ spooled' = spooled
             ELSE phase' = (IF rest - k > 0 THEN "loop" ELSE "done") /\ spooled' = (spooled \/ outLen + k > buf)
  /\ UNCHANGED <<dataLen, cl, buf, maxBody>>
NFinish == /\ phase = "loop" /\ rest <= 0 /\ phase' = "done"
           /\ UNCHANGED <<dataLen, cl, buf, maxBody, pos, rest, outLen, spooled, over>>
NNext == (\E k \in 0..NMax(buf, 0) : NRead(k)) \/ NFinish
NInit == /\ pos = 0 /\ rest = cl /\ phase = "loop" /\ outLen = 0 /\ spooled = FALSE /\ over = FALSE
         /\ dataLen \in Nat /\ cl \in Int /\ buf \in Nat /\ maxBody \in Int
NSpec == NInit /\ [][NNext]_nvars
NExact == phase = "done" => outLen = NMin(NMax(cl, 0), dataLen)
NNoOverRead == ~over /\ pos <= NMax(cl, 0)
NSizeLimit == /\ (maxBody >= 0) => outLen <= maxBody + buf
              /\ (phase = "e413") => (maxBody >= 0 /\ outLen > maxBody)
              /\ (phase = "done" /\ maxBody >= 0) => outLen <= maxBody
NSpooling == phase = "done" => (spooled <=> outLen > buf)
=============================================================================
