------------------------------ MODULE MC_Body ------------------------------
(* Small-scope exhaustive configurations for Body.tla (C04, C05, C13).       *)
EXTENDS Body

CONSTANTS Scenario,   \* "cl" | "legal" | "corrupt" | "limits"
          MaxData, MaxCL, Bufs, MaxBodies

VARIABLES kind, expect      \* ghost: how inp was generated, and the payload it encodes
mcvars == <<vars, kind, expect>>

a1 == 97
HexLow(n) == IF n < 10 THEN <<48 + n>> ELSE <<87 + n>>
HexUp(n) == IF n < 10 THEN <<48 + n>> ELSE <<55 + n>>
Pay(n) == [i \in 1..n |-> 100 + i]
\* style 0: plain lower hex; 1: leading zero + upper hex; 2: chunk extension and a trailer line
SizeLine(k, style) ==
  (IF style = 1 THEN <<48>> \o HexUp(k) ELSE HexLow(k)) \o (IF style = 2 THEN <<SEMI, a1>> ELSE <<>>) \o <<CR, LF>>
RECURSIVE Enc(_, _, _)
Enc(pay, parts, style) ==
  IF parts = <<>> THEN SizeLine(0, IF style = 2 THEN 0 ELSE style) \o (IF style = 2 THEN <<a1, COLON, a1, CR, LF, CR, LF>> ELSE <<>>)
  ELSE LET k == Head(parts) IN
       SizeLine(k, style) \o SubSeq(pay, 1, k) \o <<CR, LF>> \o Enc(SubSeq(pay, k + 1, Len(pay)), Tail(parts), style)
PartsSet == UNION {Compositions(n) : n \in 0..3} \cup {<<10>>, <<11, 1>>, <<1, 12>>}
Good == {[enc |-> Enc(Pay(SumSeq(p)), p, st), pay |-> Pay(SumSeq(p))] : p \in PartsSet, st \in 0..2}
\* positions (1-based) of framing bytes of an encoding: everything that is not payload (payload bytes are > 100)
Framing(e) == {i \in 1..Len(e) : e[i] <= 100}
Subst == {48, 49, 97, 70, SEMI, CR, LF, SP, HY, PLUS, 120, US, 103}
SmallGood == {g \in Good : Len(g.pay) <= 2}
Corrupt == UNION {{[enc |-> [g.enc EXCEPT ![i] = c], pay |-> g.pay] : i \in Framing(g.enc), c \in Subst} : g \in SmallGood}
MB_none == {-1}
MB_small == {0, 2, 3, 5}
MB_chunk == {0, 2, 3, 11}

Init ==
  /\ \/ /\ Scenario = "cl"
        /\ \E d \in 0..MaxData, c \in (-1)..MaxCL, b \in Bufs, mb \in MaxBodies :
             InitReader("cl", [i \in 1..d |-> i], c, b, mb)
        /\ kind = "cl" /\ expect = <<>>
     \/ /\ Scenario = "legal"
        /\ \E g \in Good, b \in Bufs :
             \/ InitReader("chunked", g.enc, -1, b, -1) /\ kind = "legal" /\ expect = g.pay
             \/ \E n \in 0..(Len(g.enc) - 1) :
                  InitReader("chunked", SubSeq(g.enc, 1, n), -1, b, -1) /\ kind = "prefix" /\ expect = g.pay
     \/ /\ Scenario = "corrupt"
        /\ \E g \in Corrupt, b \in Bufs :
             InitReader("chunked", g.enc, -1, b, -1) /\ kind = "corrupt" /\ expect = g.pay
     \/ /\ Scenario = "limits"
        /\ \E g \in Good, b \in Bufs, mb \in MaxBodies :
             InitReader("chunked", g.enc, -1, b, mb) /\ kind = "legal" /\ expect = g.pay

Spec == Init /\ [][Next /\ UNCHANGED <<kind, expect>>]_mcvars

\* C05
LegalAccepted == (kind = "legal" /\ maxBody < 0 /\ Terminal) => (phase = "done" /\ out = expect)
PrefixVerdict ==
  (kind = "prefix" /\ Terminal) =>
     LET r == RefDecode(inp) IN
     /\ r.st \in {"trunc", "ok"}
     /\ (r.st = "trunc") => phase = "e400"
     /\ (r.st = "ok") => (phase = "done" /\ out = expect)
\* any input: a missing CRLF after chunk data is rejected, and whatever is accepted
\* by the strict reference decoder is presented exactly
AnyInput ==
  (mode = "chunked" /\ Terminal /\ maxBody < 0) =>
     LET r == RefDecode(inp) IN
     /\ phase \in {"done", "e400"}
     /\ (r.st \in {"trunc", "nocrlf"}) => phase = "e400"
     /\ (r.st = "ok" /\ phase = "done") => out = r.pay
\* C13 under chunked framing
LimitVerdict ==
  (mode = "chunked" /\ kind = "legal" /\ maxBody >= 0 /\ Terminal) =>
     IF Len(expect) > maxBody THEN phase = "e413" ELSE (phase = "done" /\ out = expect)
ClLimitVerdict ==
  (mode = "cl" /\ maxBody >= 0 /\ Terminal) =>
     LET n == Min2(Max2(cl, 0), Len(inp)) IN IF n > maxBody THEN phase = "e413" ELSE phase = "done"
\* the numeric abstraction used for large recorded executions is a refinement of this machine in cl mode
Num == INSTANCE BodyClNum WITH dataLen <- Len(inp), outLen <- Len(out)
NumRefines == [][mode = "cl" => (Num!NNext \/ UNCHANGED Num!nvars)]_vars
ClPrefix == mode = "cl" => (out = SubSeq(inp, 1, Len(out)) /\ (phase # "e413" => Len(out) = pos))
\* every run terminates: pos grows or phase changes (bounded by the input length)
Progress == [][pos' > pos \/ phase' # phase]_vars
=============================================================================
