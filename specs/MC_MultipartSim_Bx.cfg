SPECIFICATION CSpec
CONSTANTS
 Boundary <- BoundaryBx
 MaxData = 2
 TwoParts = TRUE
INVARIANT Emit
CHECK_DEADLOCK FALSE
