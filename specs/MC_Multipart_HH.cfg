SPECIFICATION Spec
CONSTANTS
 Boundary <- BoundaryHH
 MaxData = 3
 TwoParts = FALSE
INVARIANT SplitIndep
INVARIANT RefAgree
CHECK_DEADLOCK FALSE
