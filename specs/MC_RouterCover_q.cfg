SPECIFICATION CSpec
CONSTANTS
 MaxOps = 4
 Universe <- U_q
 HookRules <- H_q
 Alphabet <- A_q
 ProbeLen = 0
 CheckNames = TRUE
CONSTRAINT Depth
INVARIANT Emit
VIEW CView
CHECK_DEADLOCK FALSE
