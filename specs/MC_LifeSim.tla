----------------------------- MODULE MC_LifeSim -----------------------------
(* Random interleavings of MC_Life for replay on real threads: prints the    *)
(* order in which the threads took their accessor steps.                     *)
EXTENDS MC_Life, Json
VARIABLE order
SInit == Init /\ order = <<>>
SNext == \E t \in Threads : Step(t) /\ order' = Append(order, t)
SSpec == SInit /\ [][SNext]_<<vars, order>>
Emit == ~AllDone \/ PrintT(<<"W", ToJson([plan |-> plan, order |-> order])>>)
=============================================================================
