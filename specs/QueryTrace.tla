----------------------------- MODULE QueryTrace -----------------------------
(* Recorded executions of the real parse_qsl / Request.query / forms /params. *)
(* A record: raw (the string parsed), pairs (what was submitted, [] if the    *)
(* raw string is arbitrary), res (the resulting mapping as [key, isList,      *)
(* values] in first-occurrence order), exc (exception class or ""),           *)
(* exact (escapes are valid UTF-8, so the mechanism model applies).           *)
EXTENDS Query, Json, IOUtils, TLCExt
Traces == JsonDeserialize(IOEnv.TRACE_FILE)
VARIABLE tid
T == Traces[tid]
Norm(res) == [j \in 1..Len(res) |-> <<res[j][1], res[j][2], res[j][3]>>]
PropFails(t) ==
  (IF t.exc # "" THEN {"Total"} ELSE {})
  \cup (IF t.exc = "" /\ Len(t.pairs) > 0 /\ Norm(t.res) # Collect([j \in 1..Len(t.pairs) |-> <<t.pairs[j][1], t.pairs[j][2]>>]) THEN {"RoundTrip"} ELSE {})
MechOK(t) == t.exc = "" /\ (t.exact => Norm(t.res) = ParseQsl(t.raw))
Init == tid \in 1..Len(Traces)
Next == UNCHANGED tid
Spec == Init /\ [][Next]_tid
Bookkeeping ==
  /\ (MechOK(T) => TLCSet(1, TLCGet(1) \cup {tid}))
  /\ LET f == PropFails(T) IN (f # {} => TLCSet(2, TLCGet(2) \cup {<<tid, c>> : c \in f}))
ASSUME TLCSet(1, {}) /\ TLCSet(2, {})
Report == /\ PrintT(<<"MECH_MISSING", ToJson((1..Len(Traces)) \ TLCGet(1))>>)
          /\ PrintT(<<"PROP_FAILS", ToJson(TLCGet(2))>>)
=============================================================================
