SPECIFICATION Spec
CONSTRAINT Bookkeeping
POSTCONDITION Report
CHECK_DEADLOCK FALSE
