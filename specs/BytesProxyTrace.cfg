SPECIFICATION TSpec
CONSTRAINT Bookkeeping
POSTCONDITION Report
CHECK_DEADLOCK FALSE
