------------------------------ MODULE BytesProxy ----------------------------
(* ombott/request_pkg/multipart.BytesIOProxy: the read-only window            *)
(* [st, end) over the request body through which an upload is read             *)
(* (FileUpload.file).  One action per public call; `obs` is the value the      *)
(* call returned.  Reference statement: whatever sequence of seeks and reads   *)
(* is made, only bytes of the window are ever returned, at the logical         *)
(* position, and the position stays inside the window (C07: no byte of one     *)
(* part appears in another).                                                    *)
EXTENDS Naturals, Integers, Sequences, TLC
CONSTANTS SrcLen, MaxOps
VARIABLES st, end, pos, obs, nops
vars == <<st, end, pos, obs, nops>>
Min2(a, b) == IF a < b THEN a ELSE b
Src == [i \in 1..SrcLen |-> i]                  \* byte i of the underlying body is identified by its index
Init == /\ st \in 0..SrcLen /\ end \in st..SrcLen /\ pos = st /\ obs = <<"init">> /\ nops = 0
Tell == pos - st
\* seek(p, whence): the new absolute position
SeekSet(p) == Min2(st + (IF p < 0 THEN 0 ELSE p), end)
SeekTo(p, whence) == IF whence = 0 THEN SeekSet(p)
                     ELSE IF whence = 1 THEN SeekSet(Tell + p)
                     ELSE SeekSet(end + p - st)
Seek(p, whence) == /\ pos' = SeekTo(p, whence) /\ obs' = <<"tell", pos' - st>> /\ UNCHANGED <<st, end>>
\* read(sz): sz = -1 stands for None / non-positive
Read(sz) ==
  LET maxsz == end - pos
      n == IF maxsz <= 0 THEN 0 ELSE IF sz > 0 THEN Min2(sz, maxsz) ELSE maxsz IN
  /\ obs' = <<"data", SubSeq(Src, pos + 1, pos + n)>>
  /\ pos' = pos + n /\ UNCHANGED <<st, end>>
Next == /\ nops < MaxOps /\ nops' = nops + 1
        /\ \/ \E p \in (-2)..(SrcLen + 2), w \in 0..2 : Seek(p, w)
           \/ \E sz \in {-1, 0, 1, 3, SrcLen + 4} : Read(sz)
Spec == Init /\ [][Next]_vars
\* reference statements
InWindow == st <= pos /\ pos <= end
OnlyWindowBytes == obs[1] = "data" => \A i \in 1..Len(obs[2]) : obs[2][i] > st /\ obs[2][i] <= end
\* a read returns the bytes that precede the new position: contiguous, in order, ending at pos
ReadIsContiguous == obs[1] = "data" => obs[2] = SubSeq(Src, pos - Len(obs[2]) + 1, pos)
TellInRange == obs[1] = "tell" => (obs[2] >= 0 /\ obs[2] <= end - st)
=============================================================================
