----------------------------- MODULE MC_Headers -----------------------------
(* Small-scope exhaustive check: sequences of <= 2 setter calls x value       *)
(* classes x statuses on the model of the header store.                       *)
EXTENDS Headers
VARIABLES store, ncalls, lastOut
vars == <<store, ncalls, lastOut>>
Texts == {<<97>>, <<97, 13>>, <<10, 97>>, <<97, 0, 98>>, <<11>>, <<133>>, <<233>>, <<8364>>, <<65536>>, <<>>}
Vals == {[t |-> "str", s |-> x] : x \in Texts} \cup {[t |-> "int", s |-> <<49>>], [t |-> "None", s |-> <<78>>], [t |-> "bytes", s |-> <<98>>],
         [t |-> "list", s |-> <<91>>], [t |-> "bool", s |-> <<84>>]}
NamesL == {[name |-> "Content-Type", lname |-> "content-type"], [name |-> "content-length", lname |-> "content-length"], [name |-> "X-A", lname |-> "x-a"]}
WithL(st, nm) == [i \in 1..Len(st) |-> IF "lname" \in DOMAIN st[i] THEN st[i] ELSE [name |-> st[i].name, vals |-> st[i].vals, lname |-> nm.lname]]
Init == store = <<>> /\ ncalls = 0 /\ lastOut = "none"
Call == /\ ncalls < 2
        /\ \E nm \in NamesL, v \in Vals, e \in {"set", "append", "default"} :
             LET r == IF e = "set" THEN SetItem(store, nm.name, v) ELSE IF e = "append" THEN AppendH(store, nm.name, v) ELSE SetDefault(store, nm.name, v) IN
             store' = WithL(r.store, nm) /\ lastOut' = r.out
        /\ ncalls' = ncalls + 1
Spec == Init /\ [][Call]_vars
NoCtlStored == \A i \in 1..Len(store) : \A j \in 1..Len(store[i].vals) : ~HasCtl(store[i].vals[j])
EmitSafe == \A st \in {200, 204, 304} :
   LET e == Emit(store, st) IN
   /\ \A i \in 1..Len(e) : ~HasCtl(e[i].val) /\ (\A j \in 1..Len(e[i].val) : e[i].val[j] < 256)
   /\ \A i \in 1..Len(e) : \E k \in 1..Len(store) : store[k].name = e[i].name /\ \E j \in 1..Len(store[k].vals) : Utf8Decode(e[i].val) = store[k].vals[j]
   /\ \A i \in 1..Len(e) : \A k \in 1..Len(store) : store[k].name = e[i].name => store[k].lname \notin BadFor(st)
=============================================================================
