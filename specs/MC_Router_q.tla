---------------------------- MODULE MC_Router_q -----------------------------
EXTENDS MC_Router
a == 97  b == 98  d == 100  e == 101  one == 49  p == 112
R(id, pat, f, n, m, nm) == [id |-> id, pat |-> pat, filters |-> f, names |-> n, meths |-> m, name |-> nm]
\* shared and split prefixes, wildcard siblings, a root-level wildcard, an int filter that clashes with it
U_q == {
  R("r1", <<a, d>>, <<>>, <<>>, {"GET"}, "n1"),
  R("r1b", <<a, d>>, <<>>, <<>>, {"ANY", "POST"}, ""),      \* a second rule on the same pattern: other handler for ANY
  R("r2", <<a, d, SEP, b>>, <<>>, <<>>, {"GET", "POST"}, "n1"),
  R("r3", <<a, d, SEP, TOKEN>>, <<None>>, <<"x">>, {"ANY"}, "n2"),
  R("r4", <<a, d, b>>, <<>>, <<>>, {"HEAD"}, ""),
  R("r5", <<TOKEN, SEP, b>>, <<None>>, <<"z">>, {"GET"}, ""),
  R("r7", <<TOKEN>>, <<"int(None)">>, <<"n">>, {"GET"}, ""),
  \* two continuations of one wildcard that differ right after it (the wildcard node holds no route itself)
  R("r8", <<a, d, SEP, TOKEN, SEP, e>>, <<None>>, <<"x">>, {"GET"}, "n3"),
  R("r12", <<a, d, SEP, TOKEN, b>>, <<None>>, <<"x">>, {"GET"}, "")
}
H_q == { R("h1", <<a, d>>, <<>>, <<>>, {}, ""), R("h2", <<a>>, <<>>, <<>>, {}, ""), R("h3", <<a, d, SEP, TOKEN>>, <<None>>, <<"x">>, {}, "") }
A_q == {a, b, d, e, SEP, one, TOKEN}
\* thorough universe: filters (int, float, re, path), anonymous wildcard, wildcard inside a segment, two rules on one pattern
U_t == U_q \cup {
  R("r9", <<p, SEP, TOKEN, SEP, e>>, <<"path(/e)">>, <<"q">>, {"GET"}, ""),
  R("r10", <<p, SEP, TOKEN>>, <<"path()">>, <<"">>, {"POST"}, ""),
  R("r11", <<a, TOKEN, b>>, <<"re([a-z]+)">>, <<"w">>, {"GET"}, "")
}
H_t == H_q \cup { R("h4", <<p, SEP>>, <<>>, <<>>, {}, "") }
A_t == {a, b, d, e, p, SEP, one, TOKEN}
\* two rules on one pattern with different wildcard names (known finding C01-names when CheckNames)
U_n == { R("r3", <<a, d, SEP, TOKEN>>, <<None>>, <<"x">>, {"GET"}, ""), R("r6", <<a, d, SEP, TOKEN>>, <<None>>, <<"y">>, {"POST"}, ""),
         R("r1", <<a, d>>, <<>>, <<>>, {"GET"}, "") }
=============================================================================
