----------------------------- MODULE LifeTrace ------------------------------
(* Validation of accessor-event traces recorded from real threads against    *)
(* Life.tla.  Each event carries: thread, kind, class, the instance it was    *)
(* called on (= the store that instance owns), the store actually hit, the    *)
(* property and the identity of the value written / read.                     *)
(* Nothing about the ORDER of events inside a request is assumed.             *)
(*   register 1: tids explained by the mechanism (every event hit the store   *)
(*               selected by the per-thread current-store variable and every  *)
(*               read returned that store's slot)                             *)
(*   register 3: tids explained by per-instance store lookup                  *)
(*   register 2: <<tid, clause>> property failures (Isolation from the log    *)
(*               alone; SoloResponse measured by the harness)                 *)
EXTENDS Life, Json, IOUtils, TLCExt
Traces == JsonDeserialize(IOEnv.TRACE_FILE)
VARIABLES tid, l, st, asis, own
T == Traces[tid]
E == T.ev[l]
Op(e) == [ev |-> e.ev, cls |-> e.cls, inst |-> e.own, prop |-> IF e.ev \in {"bind", "req"} THEN "" ELSE e.prop]
TInit == /\ tid \in 1..Len(Traces) /\ l = 1
         /\ st = InitSt
         /\ asis = TRUE /\ own = TRUE
TStep == /\ l <= Len(T.ev)
         /\ LET e == E
                op == Op(e)
                h == IF e.ev \in {"bind", "req"} THEN e.own ELSE e.hit
                v == IF e.ev \in {"bind", "req"} THEN 0 ELSE e.val IN
            /\ st' = Apply(st, e.t, op, h, v)
            /\ asis' = (asis /\ (e.ev \in {"bind", "req"} \/ (h = HitAsIs(st.bound, e.t, op, 0)
                                   /\ (e.ev = "get" => v = Look(st.slot, <<h, e.t, e.prop>>)))))
            /\ own' = (own /\ (e.ev \in {"bind", "req"} \/ h = e.own))
         /\ l' = l + 1 /\ UNCHANGED tid
TSpec == TInit /\ [][TStep]_<<tid, l, st, asis, own>>
Done == l = Len(T.ev) + 1
Bookkeeping ==
  /\ ((Done /\ asis) => TLCSet(1, TLCGet(1) \cup {tid}))
  /\ ((Done /\ own) => TLCSet(3, TLCGet(3) \cup {tid}))
  /\ ((Done /\ st.bad) => TLCSet(2, TLCGet(2) \cup {<<tid, "Isolation">>}))
  /\ ((l = 1 /\ \E i \in 1..Len(T.resp_ok) : ~T.resp_ok[i]) => TLCSet(2, TLCGet(2) \cup {<<tid, "SoloResponse">>}))
ASSUME TLCSet(1, {}) /\ TLCSet(2, {}) /\ TLCSet(3, {})
Report == /\ PrintT(<<"MECH_MISSING", ToJson((1..Len(Traces)) \ TLCGet(1))>>)
          /\ PrintT(<<"OWN_MISSING", ToJson((1..Len(Traces)) \ TLCGet(3))>>)
          /\ PrintT(<<"PROP_FAILS", ToJson(TLCGet(2))>>)
=============================================================================
