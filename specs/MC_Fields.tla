------------------------------ MODULE MC_Fields -----------------------------
(* Small-scope exhaustive check of C07 on Fields.tla: every list of <= 2       *)
(* fields over adversarial alphabets survives Encode / Parse.                  *)
EXTENDS Fields
CONSTANTS NameLen, ValLen
VARIABLE fs
NameAlpha == {97, SEMI, EQ, SP, 92, 233}
ValAlpha == {120, CR, LF, HY} \cup {Boundary[i] : i \in 1..Len(Boundary)}
Names1 == SeqsUpTo(NameAlpha, NameLen) \ {<<>>}
\* option values are stripped of blanks only inside g1; names with leading/trailing blanks survive inside quotes
Vals1 == {v \in SeqsUpTo(ValAlpha, ValLen) : Find(v \o CRLF \o <<HY, HY>> \o Boundary, Token) = Len(v)}
TextF(n, v) == [name |-> n, isfile |-> FALSE, fname |-> <<>>, ctype |-> <<>>, data |-> v]
FileF(n, f, v) == [name |-> n, isfile |-> TRUE, fname |-> f, ctype |-> <<<<116, SLASH, 112>>>>, data |-> v]
One == {TextF(n, v) : n \in Names1, v \in {w \in Vals1 : \A i \in 1..Len(w) : w[i] < 128}}
       \cup {FileF(n, f, v) : n \in {<<97>>, <<SEMI, 97>>}, f \in Names1, v \in Vals1}
SmallN == {<<97>>, <<98, SEMI>>}
Two == {<<a, b>> : a \in {TextF(n, <<120>>) : n \in SmallN} \cup {FileF(n, <<102>>, <<CR, LF, HY>>) : n \in SmallN},
                   b \in {TextF(n, <<>>) : n \in SmallN} \cup {FileF(n, <<103, EQ>>, <<HY, HY>>) : n \in SmallN}}
Init == fs \in {<<>>} \cup {<<f>> : f \in One} \cup Two \cup {<<a[1], a[2], a[1]>> : a \in Two}
Next == UNCHANGED fs
Spec == Init /\ [][Next]_fs
RoundTripInv == FormRoundTrip(fs, 1000)
BoundaryB == <<66>>
BoundaryAB == <<97, 61, 98>>
=============================================================================
