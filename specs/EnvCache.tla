------------------------------ MODULE EnvCache ------------------------------
(* Beyond the listed properties: the per-request cache of parsed values that  *)
(* BaseRequest keeps inside its environ (helpers.cache_in, keys               *)
(* 'ombott.request.<prop>') and its invalidation by Request.__setitem__ ->    *)
(* BaseRequest._on_env_changed ("Change an environ value and clear all caches *)
(* that depend on it").                                                       *)
(*                                                                            *)
(* Environ keys carry version numbers; the value of a cached property is the  *)
(* SNAPSHOT of the versions of the environ keys that went into it (directly   *)
(* or through other cached properties).  One action per public call:          *)
(*   Set(k, v)   request[k] = <value of version v>                            *)
(*   Read(p)     request.<p>                                                  *)
(* Coherent == every value a Read returns is the one a fresh Request over the *)
(* current environ would compute.  The AS-IS invalidation table of the code   *)
(* does not have this property (StalePairs below lists exactly where); the    *)
(* FULL table (transitive dependencies) has it.  Both are model-checked; the  *)
(* as-is model is bound to the code by replay and by trace validation.        *)
EXTENDS Naturals, FiniteSets, Sequences, TLC
CONSTANTS MaxV,        \* versions 0..MaxV per environ key
          FullInval,   \* FALSE: the table of _on_env_changed as written;  TRUE: transitive dependencies
          VarKeys      \* the environ keys the application assigns in this configuration

Keys == {"QUERY_STRING", "HTTP_COOKIE", "HTTP_ACCEPT", "HTTP_HOST", "PATH_INFO", "SCRIPT_NAME",
         "CONTENT_TYPE", "CONTENT_LENGTH", "wsgi.input", "HTTP_X_FORWARDED_FOR"}
Props == {"query", "cookies", "is_json_requested", "script_name", "fullpath", "urlparts", "url",
          "content_type", "ctype", "content_length", "body", "post", "forms", "files", "params", "json", "remote_route"}

\* environ keys a property getter reads directly (self._env_get / self.environ.get)
EnvDeps(p) ==
  CASE p = "query" -> {"QUERY_STRING"}
    [] p = "cookies" -> {"HTTP_COOKIE"}
    [] p = "is_json_requested" -> {"HTTP_ACCEPT"}
    [] p = "script_name" -> {"SCRIPT_NAME"}
    [] p = "fullpath" -> {"PATH_INFO"}
    [] p = "urlparts" -> {"HTTP_HOST", "QUERY_STRING"}
    [] p = "content_type" -> {"CONTENT_TYPE"}
    [] p = "content_length" -> {"CONTENT_LENGTH"}
    [] p = "body" -> {"wsgi.input"}
    [] p = "remote_route" -> {"HTTP_X_FORWARDED_FOR"}
    [] OTHER -> {}
\* other cached properties a getter reads (through their caches)
PropDeps(p) ==
  CASE p = "fullpath" -> {"script_name"}
    [] p = "urlparts" -> {"fullpath"}
    [] p = "url" -> {"urlparts"}
    [] p = "ctype" -> {"content_type"}
    [] p = "body" -> {"content_length"}
    [] p = "json" -> {"ctype"}                               \* not application/json in this model: None after reading ctype
    [] p = "post" -> {"content_type", "body", "content_length"}   \* urlencoded branch: content_type, _get_body_string()
    [] p = "forms" -> {"post"}
    [] p = "files" -> {"post"}
    [] p = "params" -> {"query", "forms"}
    [] OTHER -> {}
\* getters that store further cache entries as a side effect (POST writes forms and files itself)
SideFills(p) == IF p = "post" THEN {"forms", "files"} ELSE {}

RECURSIVE TransKeys(_)
TransKeys(p) == EnvDeps(p) \cup UNION {TransKeys(q) : q \in PropDeps(p)}

\* BaseRequest._on_env_changed
AsIsInval(k) ==
  CASE k = "wsgi.input" -> {"forms", "files", "params", "post", "json", "body"}
    [] k = "QUERY_STRING" -> {"query", "params"}
    [] k \in {"HTTP_COOKIE", "HTTP_ACCEPT", "HTTP_HOST", "HTTP_X_FORWARDED_FOR"} -> {"cookies"}     \* key.startswith('HTTP_'): headers (a live view), cookies
    [] OTHER -> {}
Inval(k) == IF FullInval THEN {p \in Props : k \in TransKeys(p)} ELSE AsIsInval(k)

None == [none |-> TRUE]
VARIABLES env,      \* [Keys -> 0..MaxV]
          cache,    \* [Props -> snapshot | None];  snapshot: [TransKeys(p) -> 0..MaxV]
          last      \* observation of the last call (kept out of the state space by VIEW)
vars == <<env, cache, last>>

\* the snapshot a getter computes now, reading its sub-properties through the cache c (filling it)
RECURSIVE Fill(_, _)
Fill(p, c) ==     \* -> cache after request.<p> has been evaluated
  IF c[p] # None THEN c
  ELSE LET subs == PropDeps(p)
           \* sub-properties are read one after the other; they do not interfere
           RECURSIVE FillAll(_, _)
           FillAll(S, cc) == IF S = {} THEN cc ELSE LET q == CHOOSE x \in S : TRUE IN FillAll(S \ {q}, Fill(q, cc))
           c1 == FillAll(subs, c)
           snap == [k \in TransKeys(p) |->
                      IF k \in EnvDeps(p) THEN env[k]
                      ELSE LET q == CHOOSE x \in subs : k \in TransKeys(x) IN c1[q][k]]
           c2 == [c1 EXCEPT ![p] = snap]
       IN [q \in Props |-> IF q \in SideFills(p) THEN [k \in TransKeys(q) |-> snap[k]] ELSE c2[q]]

Init == /\ env = [k \in Keys |-> 0]
        /\ cache = [p \in Props |-> None]
        /\ last = <<"init">>
Set(k, v) ==
  /\ env[k] # v \/ k = "wsgi.input"       \* an equal value returns early; a new stream object is never equal
  /\ env' = [env EXCEPT ![k] = v]
  /\ cache' = [p \in Props |-> IF p \in Inval(k) THEN None ELSE cache[p]]
  /\ last' = <<"set", k, v>>
Read(p) ==
  /\ cache' = Fill(p, cache)
  /\ env' = env
  /\ last' = <<"read", p, cache'[p]>>
RelProps == {p \in Props : TransKeys(p) \cap VarKeys # {}}
Next == (\E k \in VarKeys, v \in 0..MaxV : Set(k, v)) \/ (\E p \in RelProps : Read(p))
Spec == Init /\ [][Next]_vars

TypeOK == /\ env \in [Keys -> 0..MaxV]
          /\ \A p \in Props : cache[p] = None \/ cache[p] \in [TransKeys(p) -> 0..MaxV]
\* every cached value is the one a fresh request over the current environ would compute
Coherent == \A p \in Props : cache[p] # None => \A k \in TransKeys(p) : cache[p][k] = env[k]
\* where the as-is table is incomplete: (key, property) pairs whose cached value survives a change of the key
StalePairs == {<<k, p>> \in Keys \X Props : k \in TransKeys(p) /\ p \notin AsIsInval(k)}
\* a value is only ever built from versions that the key had at some time: no out-of-thin-air
NoThinAir == \A p \in Props : cache[p] # None => \A k \in TransKeys(p) : cache[p][k] \in 0..MaxV
=============================================================================
