SPECIFICATION Spec
CONSTANTS PerInstance = FALSE
INVARIANT NeverAllDone
CHECK_DEADLOCK FALSE
