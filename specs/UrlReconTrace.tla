--------------------------- MODULE UrlReconTrace ----------------------------
(* Records of the real Request: [sn, xsn, allow, pi, app (the application-name *)
(* header: "/" when absent), script, path, full, mounted (fullpath of the same  *)
(* request once the domain_map option has put "/t" before the path; empty list  *)
(* when not asked), modelled].  Register 1: records on which the transcription  *)
(* gives the same three values (claimed only for text the model covers).        *)
(* Register 2: UnknownDeviation (fullpath differs from the PEP 3333 reference   *)
(* although the request is in none of the named classes), MountVisible.         *)
EXTENDS UrlRecon, Json, IOUtils, TLCExt
Traces == JsonDeserialize(IOEnv.TRACE_FILE)
VARIABLE tid
T == Traces[tid]
MechOK(t) == ~t.modelled \/ ( /\ ScriptName(t.sn, t.xsn, t.allow) = t.script
                              /\ PathOf(t.pi) = t.path
                              /\ FullPath(t.sn, t.xsn, t.allow, t.pi, t.app) = t.full )
PropFails(t) ==
  (IF t.app = <<SLASH>> /\ t.full # RefFull(t.sn, t.xsn, t.allow, t.pi) /\ Classes(t.sn, t.xsn, t.allow, t.pi) = {}
   THEN {"UnknownDeviation"} ELSE {})
  \cup (IF t.mounted # <<>> /\ t.mounted[1] # t.full THEN {"MountVisible"} ELSE {})
Init == tid \in 1..Len(Traces)
Next == UNCHANGED tid
Spec == Init /\ [][Next]_tid
Bookkeeping ==
  /\ (MechOK(T) => TLCSet(1, TLCGet(1) \cup {tid}))
  /\ LET f == PropFails(T) IN (f # {} => TLCSet(2, TLCGet(2) \cup {<<tid, c>> : c \in f}))
ASSUME TLCSet(1, {}) /\ TLCSet(2, {})
Report == /\ PrintT(<<"MECH_MISSING", ToJson((1..Len(Traces)) \ TLCGet(1))>>)
          /\ PrintT(<<"PROP_FAILS", ToJson(TLCGet(2))>>)
=============================================================================
