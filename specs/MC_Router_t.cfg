SPECIFICATION Spec
CONSTANTS
 MaxOps = 5
 Universe <- U_t
 HookRules <- H_t
 Alphabet <- A_t
 ProbeLen = 3
 CheckNames = TRUE
CONSTRAINT Depth
INVARIANT AgreeResolve
INVARIANT RefDefined
INVARIANT IndexAgree
INVARIANT FreshEquiv
INVARIANT FreshVerdict
CHECK_DEADLOCK FALSE
