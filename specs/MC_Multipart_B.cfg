SPECIFICATION Spec
CONSTANTS
 Boundary <- BoundaryB
 MaxData = 3
 TwoParts = TRUE
INVARIANT SplitIndep
INVARIANT RefAgree
CHECK_DEADLOCK FALSE
