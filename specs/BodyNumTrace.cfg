SPECIFICATION TSpec
CONSTRAINT Bookkeeping
INVARIANT NExact
INVARIANT NNoOverRead
INVARIANT NSizeLimit
INVARIANT NSpooling
POSTCONDITION Report
CHECK_DEADLOCK FALSE
