------------------------------ MODULE MC_Life -------------------------------
(* Every interleaving of per-thread accessor programs.  The programs are not *)
(* written by hand: the harness records the accessor events of each request  *)
(* kind / arrangement served alone on the real code and generates the module *)
(* LifeProgs (Threads, Plans, ProgOf, Bound0).  A plan is a sequence of      *)
(* scenario names served one after the other by one thread.                  *)
EXTENDS Life, LifeProgs
CONSTANTS PerInstance      \* FALSE: stores selected through the class-level closure variable (the code as it is)
VARIABLES st, pc, prog, plan
vars == <<st, pc, prog, plan>>
\* a private instance (request.copy(), an application created inside a handler) is unique to the thread running the program
InstOf(t, op) == IF op.private THEN <<op.inst, t>> ELSE <<op.inst, 0>>
ValOf(t, op, i) == IF op.vid = 0 THEN NoneV ELSE t * 100000 + i     \* a fresh value per executed set
RECURSIVE Concat(_)
Concat(pl) == IF pl = <<>> THEN <<>> ELSE ProgOf[Head(pl)] \o Concat(Tail(pl))
Init == /\ plan \in [Threads -> Plans]
        /\ prog = [t \in Threads |-> Concat(plan[t])]
        /\ st = InitSt
        /\ pc = [t \in Threads |-> 1]
Step(t) ==
  /\ pc[t] <= Len(prog[t])
  /\ LET op0 == prog[t][pc[t]]
         op == [op0 EXCEPT !.inst = InstOf(t, op0)]
         h == IF PerInstance THEN HitOwn(op) ELSE HitAsIs(st.bound, t, op, <<"nostore", 0>>)
         v == IF op.ev = "get" THEN Look(st.slot, <<h, t, op.prop>>) ELSE ValOf(t, op, pc[t])
     IN st' = Apply(st, t, op, h, v)
  /\ pc' = [pc EXCEPT ![t] = @ + 1]
  /\ UNCHANGED <<prog, plan>>
Next == \E t \in Threads : Step(t)
Spec == Init /\ [][Next]_vars
Isolation == ~st.bad
AllDone == \A t \in Threads : pc[t] > Len(prog[t])
NeverAllDone == ~AllDone           \* vacuity guard: this "invariant" must be violated
\* the plan of a violating behaviour, for the harness
IsolationW == st.bad => PrintT(<<"BADPLAN", plan>>) /\ FALSE
=============================================================================
