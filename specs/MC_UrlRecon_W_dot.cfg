SPECIFICATION Spec
CONSTANTS
 MaxLen = 4
INVARIANT W_dot
CHECK_DEADLOCK FALSE
