SPECIFICATION Spec
CONSTANTS
 ShortReads = TRUE
 Scenario = "corrupt"
 MaxData = 0
 MaxCL = 0
 Bufs = {6}
 MaxBodies <- MB_none
INVARIANT AnyInput
CHECK_DEADLOCK FALSE
