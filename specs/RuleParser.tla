------------------------------ MODULE RuleParser ----------------------------
(* ombott/router/parser.py (Parser._iter_parse, _parse_param), sym_stream.py  *)
(* (SymStream.eat/expect/expect_parenthesized) and Route.parse_rule: the rule *)
(* syntax flavours                                                            *)
(*    :name      <name>  {name}   <name:filter>  <name.filter>  <:filter>     *)
(*    <name:filter:args>  <name.filter(args)>  <filter(args)>  {...}          *)
(* Rule text is Seq(Nat) WITHOUT the leading '/'.  Result:                    *)
(*    [ok, pat (pattern with TOKEN), names ("" = anonymous), fkeys]           *)
(* or [ok |-> FALSE, err].  Flavour equivalence (C01: "in every rule syntax   *)
(* flavour") is the invariant Parse(Render(r, flavour)) = r.                  *)
EXTENDS Text, TLC
TOKEN == 13
LTc == 60  GTc == 62  LBc == 123  RBc == 125  LP == 40  RP == 41  LSB == 91  RSB == 93  DOTc == 46  BSLc == 92
IsNameStart(c) == c \in 65..90 \/ c \in 97..122 \/ c = US
IsWord(c) == IsNameStart(c) \/ IsDigit(c)
ParamTok(c) == c \in {LBc, LTc, COLON}
Close(o) == IF o = LTc THEN GTc ELSE RBc
At(s, i) == IF i < Len(s) THEN s[i + 1] ELSE -1        \* S.current at 0-based position i (-1 = None)

\* length of a python name at i (0 if none)
RECURSIVE WordLen(_, _)
WordLen(s, i) == IF i < Len(s) /\ IsWord(s[i + 1]) THEN 1 + WordLen(s, i + 1) ELSE 0
NameLen(s, i) == IF i < Len(s) /\ IsNameStart(s[i + 1]) THEN 1 + WordLen(s, i + 1) ELSE 0
\* [^chars]+ at i
RECURSIVE RunNot(_, _, _)
RunNot(s, i, stop) == IF i < Len(s) /\ s[i + 1] \notin stop THEN 1 + RunNot(s, i + 1, stop) ELSE 0

\* find_pos_after_close_paren(s, start): 0-based index after the matching ')' or -1
RECURSIVE CloseParen(_, _, _)
CloseParen(s, i, depth) ==
  IF i >= Len(s) THEN -1
  ELSE IF s[i + 1] = BSLc THEN CloseParen(s, i + 2, depth)
  ELSE IF s[i + 1] = RP THEN (IF depth > 0 THEN CloseParen(s, i + 1, depth - 1) ELSE i + 1)
  ELSE IF s[i + 1] = LP THEN CloseParen(s, i + 1, depth + 1)
  ELSE CloseParen(s, i + 1, depth)

Err(e) == [ok |-> FALSE, err |-> e]
\* _parse_param at position i (s[i] is ':', '<' or '{'): [ok, i (after), name, filter, args, hasargs]
ParseParam(s, i) ==
  LET first == At(s, i) IN
  IF first = COLON THEN
     LET j == i + 1 IN
     IF j >= Len(s) THEN [ok |-> TRUE, i |-> j, name |-> <<>>, filter |-> <<>>, args |-> <<>>, hasargs |-> FALSE]
     ELSE LET n == NameLen(s, j) IN
       \* regex (name)?((?=/)|$) with group 1: a missing name makes eat() return None -> syntax error
       IF n = 0 THEN Err("syntax")
       ELSE IF j + n = Len(s) \/ At(s, j + n) = SLASH THEN [ok |-> TRUE, i |-> j + n, name |-> Slice(s, j, j + n), filter |-> <<>>, args |-> <<>>, hasargs |-> FALSE]
       ELSE Err("syntax")
  ELSE
    LET dclose == Close(first)
        j0 == i + 1
        bottle == At(s, j0) = COLON
        j1 == IF bottle THEN j0 + 1 ELSE j0
        n == NameLen(s, j1) IN
    IF n = 0 THEN Err("syntax")
    ELSE LET name == Slice(s, j1, j1 + n)
             j2 == j1 + n
             c == At(s, j2)
             \* after the name: [ok, param, filter, j]
             st == IF c = dclose THEN [ok |-> TRUE, param |-> IF bottle THEN <<>> ELSE name, filter |-> IF bottle THEN name ELSE <<>>, j |-> j2]
                   ELSE IF c = DOTc THEN
                      LET m == NameLen(s, j2 + 1) IN
                      IF m = 0 THEN [ok |-> FALSE] ELSE [ok |-> TRUE, param |-> name, filter |-> Slice(s, j2 + 1, j2 + 1 + m), j |-> j2 + 1 + m]
                   ELSE IF c = COLON THEN
                      IF bottle THEN [ok |-> TRUE, param |-> <<>>, filter |-> name, j |-> j2]
                      ELSE LET m == NameLen(s, j2 + 1) IN
                           IF m = 0 THEN [ok |-> FALSE] ELSE [ok |-> TRUE, param |-> name, filter |-> Slice(s, j2 + 1, j2 + 1 + m), j |-> j2 + 1 + m]
                   ELSE IF c = LP THEN [ok |-> TRUE, param |-> <<>>, filter |-> name, j |-> j2]
                   ELSE [ok |-> FALSE]
         IN
         IF ~st.ok THEN Err("syntax")
         ELSE IF st.filter = <<>> THEN
            (IF At(s, st.j) = dclose THEN [ok |-> TRUE, i |-> st.j + 1, name |-> st.param, filter |-> <<>>, args |-> <<>>, hasargs |-> FALSE] ELSE Err("syntax"))
         ELSE LET c2 == At(s, st.j) IN
            IF c2 \notin {COLON, LP, dclose} THEN Err("syntax")
            ELSE IF c2 = dclose THEN [ok |-> TRUE, i |-> st.j + 1, name |-> st.param, filter |-> st.filter, args |-> <<>>, hasargs |-> FALSE]
            ELSE IF c2 = LP THEN
               LET e == CloseParen(s, st.j + 1, 0) IN
               IF e < 0 THEN Err("syntax")
               ELSE IF At(s, e) = LSB THEN Err("selector")        \* rex selectors are out of scope of this model
               ELSE IF At(s, e) = dclose THEN [ok |-> TRUE, i |-> e + 1, name |-> st.param, filter |-> st.filter, args |-> Slice(s, st.j + 1, e - 1), hasargs |-> TRUE]
               ELSE Err("syntax")
            ELSE \* bottle style  name:filter:args
               LET m == RunNot(s, st.j + 1, {dclose}) IN
               \* eat('[^>]+') returns None when nothing matches; expect(dclose) then decides
               IF At(s, st.j + 1 + m) = dclose THEN
                  [ok |-> TRUE, i |-> st.j + 2 + m, name |-> st.param, filter |-> st.filter, args |-> Slice(s, st.j + 1, st.j + 1 + m), hasargs |-> m > 0]
               ELSE Err("syntax")

KnownFilters == {<<105, 110, 116>>, <<102, 108, 111, 97, 116>>, <<114, 101>>, <<112, 97, 116, 104>>, <<114, 101, 120>>}   \* int float re path rex
PATHW == <<112, 97, 116, 104>>
NONEW == <<78, 111, 110, 101>>
\* fkey = f'{filter}({args})' ; args None prints as None
FKey(filter, args, hasargs) == filter \o <<LP>> \o (IF hasargs THEN args ELSE NONEW) \o <<RP>>
\* Route.parse_rule over the whole rule text
RECURSIVE ParseFrom(_, _, _, _, _)
ParseFrom(s, i, pat, names, fkeys) ==
  IF i >= Len(s) THEN [ok |-> TRUE, pat |-> pat, names |-> names, fkeys |-> fkeys]
  ELSE IF ParamTok(s[i + 1]) THEN
     LET p == ParseParam(s, i) IN
     IF ~p.ok THEN p
     ELSE IF p.filter # <<>> /\ p.filter \notin KnownFilters THEN Err("KeyError")
     ELSE IF p.filter \in {<<114, 101>>, <<114, 101, 120>>} /\ ~p.hasargs THEN Err("TypeError")     \* re.compile(None)
     ELSE LET run == RunNot(s, p.i, {LBc, LTc, COLON})
              \* re.match('[^{<:]+', tail): no match (tail empty or starting with a param token) -> the WHOLE tail is taken
              tailLen == IF run = 0 THEN Len(s) - p.i ELSE run
              isPath == p.filter = PATHW
              args == IF isPath THEN Slice(s, p.i, p.i + tailLen) ELSE p.args
              hasargs == IF isPath THEN TRUE ELSE p.hasargs
              fk == IF p.filter = <<>> THEN <<>> ELSE FKey(p.filter, args, hasargs) IN
          ParseFrom(s, p.i, Append(pat, TOKEN), Append(names, p.name), Append(fkeys, fk))
  ELSE LET n == RunNot(s, i, {LBc, LTc, COLON}) IN
       ParseFrom(s, i + n, pat \o Slice(s, i, i + n), names, fkeys)
ParseRule(s) == ParseFrom(s, 0, <<>>, <<>>, <<>>)
=============================================================================
