SPECIFICATION Spec
CONSTANTS
 MaxLen = 4
INVARIANT Faithful
CHECK_DEADLOCK FALSE
