---------------------------- MODULE BodyClNumApa ----------------------------
(* Apalache wrapper: unbounded inductive-invariant check of the numeric       *)
(* Content-Length reader (specs/BodyClNum.tla).                               *)
EXTENDS Integers
VARIABLES
  \* @type: Int;
  dataLen,
  \* @type: Int;
  cl,
  \* @type: Int;
  buf,
  \* @type: Int;
  maxBody,
  \* @type: Int;
  pos,
  \* @type: Int;
  rest,
  \* @type: Str;
  phase,
  \* @type: Int;
  outLen,
  \* @type: Bool;
  spooled,
  \* @type: Bool;
  over
INSTANCE BodyClNum
\* every variable is constrained
TypeOK == /\ dataLen >= 0 /\ buf >= 1 /\ maxBody >= -1 /\ cl >= -1
          /\ phase \in {"loop", "done", "e413"} /\ spooled \in BOOLEAN /\ over \in BOOLEAN
IndInv ==
  /\ TypeOK
  /\ pos >= 0 /\ pos <= dataLen /\ outLen = pos /\ ~over
  /\ pos <= NMax(cl, 0)
  /\ rest = cl - pos
  /\ (phase = "done") => (rest <= 0 \/ pos = dataLen)
  /\ (phase # "e413" /\ maxBody >= 0) => outLen <= maxBody
  /\ (phase = "e413") => (maxBody >= 0 /\ outLen > maxBody /\ outLen <= maxBody + buf)
  /\ (phase # "e413") => (spooled <=> outLen > buf)
IndInit == /\ dataLen \in Int /\ cl \in Int /\ buf \in Int /\ maxBody \in Int /\ pos \in Int /\ rest \in Int /\ outLen \in Int
           /\ phase \in {"loop", "done", "e413"} /\ spooled \in BOOLEAN /\ over \in BOOLEAN
           /\ IndInv
ApaInit == /\ dataLen \in Nat /\ cl \in Int /\ buf \in Nat /\ maxBody \in Int
           /\ dataLen >= 0 /\ buf >= 1 /\ maxBody >= -1 /\ cl >= -1
           /\ pos = 0 /\ rest = cl /\ phase = "loop" /\ outLen = 0 /\ spooled = FALSE /\ over = FALSE
Safety == NExact /\ NNoOverRead /\ NSizeLimit /\ NSpooling
=============================================================================
