------------------------------- MODULE Text -------------------------------
(* Shared sequence operators with Python semantics. Text and bytes are       *)
(* Seq(Nat) (code points / byte values); slices are 0-based and clipped like *)
(* Python's s[a:b].                                                          *)
EXTENDS Naturals, Integers, Sequences, FiniteSets

CR == 13  LF == 10  HT == 9  SP == 32  NUL == 0
HY == 45  SEMI == 59  COLON == 58  EQ == 61  QUOTE == 34  SLASH == 47
AMP == 38  PLUS == 43  PCT == 37  ZERO == 48  US == 95  COMMA == 44

Min2(a, b) == IF a < b THEN a ELSE b
Max2(a, b) == IF a > b THEN a ELSE b
MinOf(S) == CHOOSE x \in S : \A y \in S : x <= y
MaxOf(S) == CHOOSE x \in S : \A y \in S : x >= y

Slice(s, a, b) ==
  LET aa == IF a < 0 THEN 0 ELSE a
      bb == IF b > Len(s) THEN Len(s) ELSE b IN
  IF aa >= bb THEN <<>> ELSE SubSeq(s, aa + 1, bb)
From(s, a) == Slice(s, a, Len(s))
StartsWith(s, p) == Len(p) <= Len(s) /\ SubSeq(s, 1, Len(p)) = p
EndsWith(s, p) == Len(p) <= Len(s) /\ SubSeq(s, Len(s) - Len(p) + 1, Len(s)) = p
StartsWithAt(s, p, i) == i >= 0 /\ i + Len(p) <= Len(s) /\ SubSeq(s, i + 1, i + Len(p)) = p

\* 0-based index of the first occurrence of character c at or after 0-based position p, -1 if none
RECURSIVE IndexFrom(_, _, _)
IndexFrom(s, c, p) == IF p >= Len(s) THEN -1 ELSE IF s[p + 1] = c THEN p ELSE IndexFrom(s, c, p + 1)
IndexOf(s, c) == IndexFrom(s, c, 0)
\* 0-based index of the first occurrence of the sequence t at or after p, -1 if none
RECURSIVE FindFrom(_, _, _)
FindFrom(s, t, p) == IF p + Len(t) > Len(s) THEN -1 ELSE IF StartsWithAt(s, t, p) THEN p ELSE FindFrom(s, t, p + 1)
Find(s, t) == FindFrom(s, t, 0)
Contains(s, c) == \E i \in 1..Len(s) : s[i] = c

CommonLen(a, b) == \* length of the common prefix
  LET n == Min2(Len(a), Len(b)) IN
  IF \E i \in 1..n : a[i] # b[i]
  THEN (CHOOSE i \in 1..n : a[i] # b[i] /\ \A j \in 1..(i - 1) : a[j] = b[j]) - 1
  ELSE n

\* bytes.strip() / str.strip() on ASCII white space
IsWs(c) == c \in {32, 9, 10, 13, 11, 12}
RECURSIVE LStrip(_)
LStrip(s) == IF s # <<>> /\ IsWs(Head(s)) THEN LStrip(Tail(s)) ELSE s
RECURSIVE RStrip(_)
RStrip(s) == IF s # <<>> /\ IsWs(s[Len(s)]) THEN RStrip(SubSeq(s, 1, Len(s) - 1)) ELSE s
Strip(s) == RStrip(LStrip(s))
RECURSIVE LStripC(_, _)
LStripC(s, c) == IF s # <<>> /\ Head(s) = c THEN LStripC(Tail(s), c) ELSE s
RECURSIVE RStripC(_, _)
RStripC(s, c) == IF s # <<>> /\ s[Len(s)] = c THEN RStripC(SubSeq(s, 1, Len(s) - 1), c) ELSE s
StripC(s, c) == RStripC(LStripC(s, c), c)

IsDigit(c) == c \in 48..57
HexVal(c) == IF c \in 48..57 THEN c - 48 ELSE IF c \in 97..102 THEN c - 87 ELSE IF c \in 65..70 THEN c - 55 ELSE -1
IsHex(c) == HexVal(c) >= 0

RECURSIVE SumSeq(_)
SumSeq(s) == IF s = <<>> THEN 0 ELSE Head(s) + SumSeq(Tail(s))
RECURSIVE Flatten(_)
Flatten(ss) == IF ss = <<>> THEN <<>> ELSE Head(ss) \o Flatten(Tail(ss))

\* all sequences over A of length <= n
RECURSIVE SeqsUpTo(_, _)
SeqsUpTo(A, n) == IF n = 0 THEN {<<>>}
                  ELSE LET s == SeqsUpTo(A, n - 1) IN s \cup {Append(y, c) : y \in {z \in s : Len(z) = n - 1}, c \in A}
\* all compositions of n as sequences of positive integers
RECURSIVE Compositions(_)
Compositions(n) == IF n = 0 THEN {<<>>} ELSE UNION {{<<k>> \o p : p \in Compositions(n - k)} : k \in 1..n}
=============================================================================
