----------------------------- MODULE Multipart ------------------------------
(* Implementation-shaped model of ombott/request_pkg/multipart.py:           *)
(*   MatchTail.match_tail, BodyMarkuper._eat_data/_eat_start_boundary/       *)
(*   iter_markup, HeadersEaeter (all four eat methods incl. the regex        *)
(*   (\r\n\r\n)|(\r(\n\r?)?)$ with Python's `$`), MultipartMarkup.parse.     *)
(* The carry state is kept exactly as the attributes of the Python objects   *)
(* so it can be projected from them after every parse() call.                *)
(* This is the REPAIRED mechanism (fix: commits in /repo): _eat_last_hyphen  *)
(* looks at one byte, and chunks after the closing delimiter are ignored.    *)
EXTENDS Text, TLC
CONSTANTS Boundary      \* Seq(Nat), without the two leading hyphens
NoneS == <<"None">>     \* optional byte strings: NoneS or <<"S", x>>
Some(x) == <<"S", x>>
IsNone(o) == o = NoneS
Val(o) == o[2]
Min(S) == MinOf(S)

BoundaryFull == <<HY, HY>> \o Boundary
Token == <<CR, LF>> \o BoundaryFull
TLen == Len(Token)
CRLF == <<CR, LF>>
CRLFx2 == <<CR, LF, CR, LF>>

\* MatchTail.match_tail(s, start, end): smallest i with token head of length i equal to the tail; -1 for None
MatchTail(s, start, end) ==
  LET slen == end - start
      cands == {i \in 1..(IF slen < TLen THEN slen ELSE TLen) :
                  Token[i] = s[end] /\ Slice(s, end - i, end) = Slice(Token, 0, i)} IN
  IF end < 1 \/ cands = {} THEN -1 ELSE Min(cands)

\* _eat_data: returns [ret (-1000 = None), trest]
NONE == -1000
RECURSIVE EatDataLoop(_, _, _)
EatDataLoop(chunk, start, trest) ==
  LET end == start + TLen IN
  IF end > Len(chunk) THEN
     LET part == From(chunk, start)
         plen == Len(part) IN
     IF plen = 0 THEN [ret |-> NONE, trest |-> trest]
     ELSE
       LET r1 == \* after trest handling: [done, ret, trest, partLive]
             IF ~IsNone(trest) THEN
               LET tr == Val(trest) IN
               IF plen < Len(tr) THEN
                  IF StartsWith(tr, part) THEN [done |-> FALSE, ret |-> NONE, trest |-> Some(From(tr, plen)), live |-> FALSE]
                  ELSE [done |-> FALSE, ret |-> NONE, trest |-> NoneS, live |-> TRUE]
               ELSE IF StartsWith(part, tr) THEN [done |-> TRUE, ret |-> start + Len(tr) - TLen, trest |-> NoneS, live |-> FALSE]
                    ELSE [done |-> FALSE, ret |-> NONE, trest |-> NoneS, live |-> TRUE]
             ELSE [done |-> FALSE, ret |-> NONE, trest |-> NoneS, live |-> TRUE]
       IN IF r1.done THEN [ret |-> r1.ret, trest |-> NoneS]
          ELSE IF r1.live THEN
             LET m == MatchTail(part, 0, plen) IN
             [ret |-> NONE, trest |-> IF m >= 0 THEN Some(From(Token, m)) ELSE r1.trest]
          ELSE [ret |-> NONE, trest |-> r1.trest]
  ELSE
     LET hit == ~IsNone(trest) /\ Slice(chunk, start, start + Len(Val(trest))) = Val(trest) IN
     IF hit THEN [ret |-> start + Len(Val(trest)) - TLen, trest |-> NoneS]
     ELSE LET m == MatchTail(chunk, start, end) IN
          IF m = TLen THEN [ret |-> start, trest |-> NoneS]
          ELSE EatDataLoop(chunk, start + TLen, IF m >= 0 THEN Some(From(Token, m)) ELSE NoneS)
EatData(chunk, base, trest) == EatDataLoop(chunk, base, trest)

\* end_headers_patt = (\r\n\r\n)|(\r(\n\r?)?)$   search from base. Returns [kind: "full"/"tail"/"none", pos, taillen]
\* '$' matches at end or just before a final LF
AtDollar(chunk, p) == p = Len(chunk) \/ (p = Len(chunk) - 1 /\ chunk[Len(chunk)] = LF)
HdrSearchAt(chunk, p) == \* try match at 0-based position p
  IF Slice(chunk, p, p + 4) = CRLFx2 THEN [kind |-> "full", pos |-> p, tl |-> 0]
  ELSE IF p < Len(chunk) /\ chunk[p+1] = CR THEN
     \* alt 2: \r(\n\r?)?$  greedy with backtracking
     IF Slice(chunk, p, p+3) = <<CR, LF, CR>> /\ AtDollar(chunk, p+3) THEN [kind |-> "tail", pos |-> p, tl |-> 3]
     ELSE IF Slice(chunk, p, p+2) = <<CR, LF>> /\ AtDollar(chunk, p+2) THEN [kind |-> "tail", pos |-> p, tl |-> 2]
     ELSE IF AtDollar(chunk, p+1) THEN [kind |-> "tail", pos |-> p, tl |-> 1]
     ELSE [kind |-> "none", pos |-> p, tl |-> 0]
  ELSE [kind |-> "none", pos |-> p, tl |-> 0]
RECURSIVE HdrSearch(_, _)
HdrSearch(chunk, p) ==
  IF p > Len(chunk) THEN [kind |-> "none", pos |-> p, tl |-> 0]
  ELSE LET r == HdrSearchAt(chunk, p) IN IF r.kind # "none" THEN r ELSE HdrSearch(chunk, p + 1)

\* HeadersEaeter state: [em (eat_meth), hee (headers_end_expected option), stopped]
\* eat returns [ret (NONE or pos), st, exc ("" or name)]
EatHeadersM(chunk, base, st) == \* _eat_headers
  LET exp == st.hee IN
  LET pre == \* handle expected; yields [fin, ret, hee, exc]
    IF ~IsNone(exp) THEN
      LET e == Val(exp)
          elen == Len(e)
          cs == Slice(chunk, base, elen)          \* NB as-is: chunk[base:expected_len]
          cslen == Len(cs) IN
      IF cs = e THEN [fin |-> TRUE, ret |-> base + elen - 4, hee |-> NoneS, exc |-> ""]
      ELSE IF cslen = 0 THEN [fin |-> TRUE, ret |-> NONE, hee |-> exp, exc |-> ""]
      ELSE IF cslen < elen /\ StartsWith(e, cs) THEN [fin |-> TRUE, ret |-> NONE, hee |-> Some(From(e, cslen)), exc |-> ""]
      ELSE IF e = <<LF>> THEN [fin |-> TRUE, ret |-> NONE, hee |-> NoneS, exc |-> "MalformedHeadersError"]   \* hee reset only if cslen<elen; irrelevant after exc
      ELSE [fin |-> FALSE, ret |-> NONE, hee |-> NoneS, exc |-> ""]
    ELSE [fin |-> FALSE, ret |-> NONE, hee |-> NoneS, exc |-> ""]
  IN IF pre.fin THEN [ret |-> pre.ret, st |-> [st EXCEPT !.hee = pre.hee], exc |-> pre.exc]
     ELSE LET s == HdrSearch(chunk, base) IN
       IF s.kind = "none" THEN [ret |-> NONE, st |-> [st EXCEPT !.hee = NoneS], exc |-> ""]
       ELSE IF s.kind = "full" THEN [ret |-> s.pos, st |-> [st EXCEPT !.hee = NoneS], exc |-> ""]
       ELSE [ret |-> NONE, st |-> [st EXCEPT !.hee = Some(From(CRLFx2, s.tl))], exc |-> ""]

FirstM(chunk, base, st) == \* _eat_first_crlf_or_last_hyphens
  LET cs == Slice(chunk, base, base + 2) IN
  IF cs = <<>> THEN [ret |-> NONE, st |-> st, exc |-> ""]
  ELSE IF cs = CRLF THEN [ret |-> base + 2, st |-> st, exc |-> ""]
  ELSE IF Len(cs) = 1 THEN
     IF cs = <<CR>> THEN [ret |-> NONE, st |-> [st EXCEPT !.em = "lf"], exc |-> ""]
     ELSE IF cs = <<HY>> THEN [ret |-> NONE, st |-> [st EXCEPT !.em = "lasthy"], exc |-> ""]
     ELSE [ret |-> NONE, st |-> [st EXCEPT !.em = "null"], exc |-> "MalformedHeadersError"]
  ELSE IF cs = <<HY, HY>> THEN [ret |-> base + 2, st |-> [st EXCEPT !.stopped = TRUE], exc |-> ""]
  ELSE [ret |-> NONE, st |-> st, exc |-> ""]     \* as-is: two other bytes -> silently wait
LastHyM(chunk, base, st) ==
  LET cs == Slice(chunk, base, base + 1) IN
  IF cs = <<>> THEN [ret |-> NONE, st |-> st, exc |-> ""]
  ELSE IF cs = <<HY>> THEN [ret |-> base + 1, st |-> [st EXCEPT !.stopped = TRUE], exc |-> ""]
  ELSE [ret |-> NONE, st |-> st, exc |-> "UnexpectedBodyEndError"]
LfM(chunk, base, st) ==
  LET cs == Slice(chunk, base, base + 1) IN
  IF cs = <<>> THEN [ret |-> NONE, st |-> st, exc |-> ""]
  ELSE IF cs = <<LF>> THEN [ret |-> base + 1, st |-> st, exc |-> ""]
  ELSE [ret |-> NONE, st |-> st, exc |-> "MalformedHeadersError"]
Dispatch(chunk, base, st) ==
  IF st.em = "first" THEN FirstM(chunk, base, st)
  ELSE IF st.em = "lasthy" THEN LastHyM(chunk, base, st)
  ELSE IF st.em = "lf" THEN LfM(chunk, base, st)
  ELSE EatHeadersM(chunk, base, st)
\* HeadersEaeter.eat
Eat(chunk, base, st) ==
  LET r == Dispatch(chunk, base, st) IN
  IF r.exc # "" \/ r.ret = NONE THEN r
  ELSE IF r.st.em # "headers" THEN
     IF r.st.stopped THEN [ret |-> NONE, st |-> r.st, exc |-> "Stop"]
     ELSE LET st2 == [r.st EXCEPT !.em = "headers"]
              r2 == EatHeadersM(chunk, r.ret, st2) IN
          IF r2.exc # "" \/ r2.ret = NONE THEN r2
          ELSE [ret |-> r2.ret, st |-> [r2.st EXCEPT !.em = "first"], exc |-> ""]
  ELSE [ret |-> r.ret, st |-> [r.st EXCEPT !.em = "first"], exc |-> ""]

\* BodyMarkuper state: [cur ("start"/"data"/"headers"), trest, abspos, abss, he (headers eater state), stopped]
InitM == [cur |-> "start", trest |-> NoneS, abspos |-> 0, abss |-> 0,
          he |-> [em |-> "first", hee |-> NoneS, stopped |-> FALSE], stopped |-> FALSE]

\* _eat_start_boundary: returns [ret, trest, exc]
StartB(chunk, base, trest) ==
  IF IsNone(trest) THEN
    LET cs == Slice(chunk, base, base + 1) IN
    IF cs = <<>> THEN [ret |-> NONE, trest |-> trest, exc |-> ""]
    ELSE IF cs = <<CR>> THEN LET r == EatData(chunk, base, trest) IN [ret |-> r.ret, trest |-> r.trest, exc |-> ""]
    ELSE IF StartsWith(chunk, BoundaryFull) THEN [ret |-> base - 2, trest |-> trest, exc |-> ""]
    ELSE IF cs # <<HY>> THEN [ret |-> NONE, trest |-> trest, exc |-> "InvalidBoundaryError"]
    ELSE LET r == EatData(chunk, base, Some(BoundaryFull)) IN [ret |-> r.ret, trest |-> r.trest, exc |-> ""]
  ELSE LET r == EatData(chunk, base, trest) IN [ret |-> r.ret, trest |-> r.trest, exc |-> ""]

\* iter_markup(chunk): loop; returns [m (state), out (sections appended), exc]
RECURSIVE IterLoop(_, _, _, _, _, _)
IterLoop(chunk, m, cur, abss, sns, out) ==   \* sns = start_next_sec
  LET r == IF cur = "headers" THEN
              LET e == Eat(chunk, sns, m.he) IN [ret |-> e.ret, trest |-> m.trest, he |-> e.st, exc |-> e.exc]
           ELSE IF cur = "data" THEN
              LET e == EatData(chunk, sns, m.trest) IN [ret |-> e.ret, trest |-> e.trest, he |-> m.he, exc |-> ""]
           ELSE LET e == StartB(chunk, sns, m.trest) IN [ret |-> e.ret, trest |-> e.trest, he |-> m.he, exc |-> e.exc]
      m1 == [m EXCEPT !.trest = r.trest, !.he = r.he]
  IN
  IF r.exc = "Stop" THEN [m |-> [m1 EXCEPT !.stopped = TRUE], out |-> out, exc |-> ""]   \* NB: abspos/cur not saved on this path
  ELSE IF r.exc # "" THEN [m |-> m1, out |-> out, exc |-> r.exc]
  ELSE IF r.ret = NONE THEN
     [m |-> [m1 EXCEPT !.abspos = @ + Len(chunk), !.cur = cur, !.abss = abss], out |-> out, exc |-> ""]
  ELSE
    IF cur = "headers" THEN
       IterLoop(chunk, m1, "data", m.abspos + r.ret + 4 + 0, r.ret + 4, Append(out, <<"headers", abss, m.abspos + r.ret>>))
    ELSE IF cur = "data" THEN
       IterLoop(chunk, m1, "headers", m.abspos + r.ret + TLen + 2, r.ret + TLen, Append(out, <<"data", abss, m.abspos + r.ret>>))
    ELSE
       LET endsec == IF m.abspos + r.ret < 0 THEN 0 - m.abspos ELSE r.ret IN
       IterLoop(chunk, m1, "headers", m.abspos + r.ret + TLen + 2, r.ret + TLen, Append(out, <<"data", abss, m.abspos + endsec>>))
IterMarkup(chunk, m) ==
  IF m.stopped THEN [m |-> m, out |-> <<>>, exc |-> ""]
  ELSE IterLoop(chunk, m, m.cur, m.abss, 0, <<>>)

\* MultipartMarkup.parse
ParseChunk(mm, chunk) == \* mm = [m, markups, error]
  IF mm.error # "" THEN mm
  ELSE LET r == IterMarkup(chunk, mm.m) IN
       [m |-> r.m, markups |-> mm.markups \o r.out, error |-> r.exc]
InitMM == [m |-> InitM, markups |-> <<>>, error |-> ""]
=============================================================================
