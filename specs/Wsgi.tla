-------------------------------- MODULE Wsgi --------------------------------
(* C03: Ombott.wsgi / _handle / _cast / handler / emit, _closeiter,          *)
(* HTTPResponse.apply as a term-rewriting machine over handler programs.     *)
(*                                                                           *)
(* Out  ::= [t:"none"] | [t:"str", n, wide] | [t:"bytes", n] | [t:"int"]     *)
(*        | [t:"list", items] | [t:"gen", items, closeable, closefail, id]   *)
(*        | [t:"file", n, closeable, closefail, id]  (closefail: close() raises) *)
(*        | [t:"resp", code, body] | [t:"err", code]                         *)
(* Item ::= [t:"estr"] | [t:"ebytes"] | [t:"str", n, wide] | [t:"bytes", n]  *)
(*        | [t:"int"] | [t:"raise"] | [t:"iresp", code, n] (yielded)         *)
(*        | [t:"rresp", code, n] (raised while iterating)                    *)
(* Prog ::= [k:"ret", v, setst] | [k:"raise", v] | [k:"exc"]                 *)
(* Env  ::= [method, fw, routing, nb, failAt, na, errh]                      *)
(* This is the REPAIRED mechanism: every 1xx status suppresses the body.     *)
EXTENDS Text, TLC

NoneI == -1
ByteLen(o) == IF o.t = "str" THEN (IF o.wide THEN 2 * o.n ELSE o.n) ELSE IF o.t = "bytes" THEN o.n ELSE 0
Falsy(o) == o.t = "none" \/ (o.t \in {"str", "bytes"} /\ o.n = 0) \/ (o.t = "list" /\ o.items = <<>>) \/ (o.t = "int" /\ FALSE)
EmptyItem(i) == i.t \in {"estr", "ebytes"} \/ (i.t \in {"str", "bytes"} /\ i.n = 0)
RECURSIVE FirstIdx(_, _)
FirstIdx(s, i) == IF i > Len(s) THEN 0 ELSE IF EmptyItem(s[i]) THEN FirstIdx(s, i + 1) ELSE i
RECURSIVE SumBytes(_, _)
SumBytes(s, i) == IF i > Len(s) THEN 0 ELSE ByteLen(s[i]) + SumBytes(s, i + 1)

\* the state threaded through _cast: status code, framework Content-Length (NoneI = not set), which custom error handlers exist
\* result: [status, cl, body ("fixed" n | "errpage" | "critical"), ret (what the server gets: kind, closeable, id), errlog]
ErrOut(code) == [t |-> "err", code |-> code]

\* _cast(out) with response status `code`; errh: set of codes having a custom handler, and what the handler does
RECURSIVE Cast(_, _, _, _)
Cast(out, code, env, fuel) ==
  IF fuel = 0 THEN [status |-> 500, cl |-> NoneI, body |-> "errpage", n |-> 0, ret |-> [kind |-> "list"], crit |-> FALSE]
  ELSE IF Falsy(out) THEN [status |-> code, cl |-> 0, body |-> "fixed", n |-> 0, ret |-> [kind |-> "list"], crit |-> FALSE]
  ELSE IF out.t \in {"str", "bytes"} THEN [status |-> code, cl |-> ByteLen(out), body |-> "fixed", n |-> ByteLen(out), ret |-> [kind |-> "list"], crit |-> FALSE]
  ELSE IF out.t = "err" THEN
     \* out.apply(response); error handler
     IF out.code \in env.errcodes THEN
        IF env.errh = "str" THEN Cast([t |-> "str", n |-> 6, wide |-> FALSE], out.code, env, fuel - 1)
        ELSE [status |-> 500, cl |-> NoneI, body |-> "critical", n |-> 0, ret |-> [kind |-> "list"], crit |-> TRUE]   \* handler raised: wsgi catch-all
     ELSE [status |-> out.code, cl |-> -2, body |-> "errpage", n |-> 0, ret |-> [kind |-> "list"], crit |-> FALSE]      \* default page: str, CL = its length
  ELSE IF out.t = "resp" THEN Cast(out.body, out.code, env, fuel - 1)
  ELSE IF out.t = "file" THEN
     IF env.fw THEN [status |-> code, cl |-> NoneI, body |-> "fixed", n |-> out.n, ret |-> [kind |-> "fw", id |-> out.id, closeable |-> out.closeable, closefail |-> out.closefail], crit |-> FALSE]
     ELSE [status |-> code, cl |-> NoneI, body |-> "fixed", n |-> out.n, ret |-> [kind |-> "file", id |-> out.id, closeable |-> out.closeable, closefail |-> out.closefail], crit |-> FALSE]
  ELSE IF out.t = "int" THEN
     \* iter(int) raises TypeError -> first = HTTPError(500, 'Unhandled exception')
     Cast(ErrOut(500), code, env, fuel - 1)
  ELSE \* list / gen
     LET fi == FirstIdx(out.items, 1) IN
     IF fi = 0 THEN Cast([t |-> "str", n |-> 0, wide |-> FALSE], code, env, fuel - 1)
     ELSE LET f == out.items[fi] IN
       IF f.t \in {"iresp", "rresp"} THEN Cast([t |-> "resp", code |-> f.code, body |-> [t |-> "str", n |-> f.n, wide |-> FALSE]], code, env, fuel - 1)
       ELSE IF f.t \in {"raise", "int"} THEN Cast(ErrOut(500), code, env, fuel - 1)
       ELSE [status |-> code, cl |-> NoneI, body |-> "fixed", n |-> SumBytes(out.items, fi),
             ret |-> [kind |-> IF out.t = "gen" THEN "iter" ELSE "chain", id |-> IF out.t = "gen" THEN out.id ELSE 0,
                      closeable |-> out.t = "gen" /\ out.closeable,
                      closefail |-> out.t = "gen" /\ out.closefail], crit |-> FALSE]

\* Ombott._handle: hooks, routing, handler -> the value handed to _cast, and the hook log
BeforeRun(env) == IF env.failAt > 0 THEN env.failAt ELSE env.nb
HookLog(env) == [i \in 1..BeforeRun(env) |-> <<"b", i>>] \o [j \in 1..env.na |-> <<"a", env.na - j + 1>>]
Handled(prog, env) ==
  IF env.failAt > 0 THEN [out |-> ErrOut(500), code |-> 200, failed |-> TRUE]
  ELSE IF env.routing = "404" THEN [out |-> ErrOut(404), code |-> 200, failed |-> FALSE]
  ELSE IF env.routing = "405" THEN [out |-> ErrOut(405), code |-> 200, failed |-> FALSE]
  ELSE IF prog.k = "exc" THEN [out |-> ErrOut(500), code |-> 200, failed |-> TRUE]
  ELSE IF prog.k = "raise" THEN [out |-> prog.v, code |-> 200, failed |-> FALSE]
  ELSE [out |-> prog.v, code |-> IF prog.setst > 0 THEN prog.setst ELSE 200, failed |-> FALSE]

MayCarryBody(status, method) == ~(status < 200 \/ status \in {204, 304} \/ method = "HEAD")

\* Ombott.wsgi: suppression, start_response, what the server receives and closes
\* closes: function from object id to number of close() calls (the server closes the returned iterable once)
Run(prog, env) ==
  LET h == Handled(prog, env)
      c == Cast(h.out, h.code, env, 12)
      suppress == ~MayCarryBody(c.status, env.method)
      hasClose == c.ret.kind \in {"iter", "file", "fw"} /\ c.ret.closeable     \* the object's own close(); wrappers forward it
      \* suppression closes it (if it has close) and returns []; otherwise the server closes what it got
      id == IF c.ret.kind \in {"iter", "file", "fw"} THEN c.ret.id ELSE 0
      \* the suppression path calls close() BEFORE start_response: a close() that raises lands in the catch-all, whose
      \* "critical error" page is then the one and only response
      critClose == suppress /\ hasClose /\ c.ret.closefail
  IN IF critClose THEN
       [status |-> 500, cl |-> NoneI, body |-> "critical", sent |-> IF env.method = "HEAD" THEN 0 ELSE 50, sr |-> 1,
        closedId |-> id, closed |-> 1, hooks |-> HookLog(env), crit |-> TRUE, failed |-> h.failed]
     ELSE
     [status |-> c.status, cl |-> IF c.status = 304 THEN NoneI ELSE c.cl,      \* headerlist withholds Content-Length on 304
      body |-> c.body,
      sent |-> IF suppress THEN 0 ELSE c.n,
      sr |-> 1,
      closedId |-> id, closed |-> IF id # 0 /\ hasClose THEN 1 ELSE 0,
      hooks |-> HookLog(env), crit |-> c.crit, failed |-> h.failed]

\* ---- property-level (WsgiAbs): which object must be closed exactly once --
\* the iterable whose items reach the returned body
RECURSIVE Forwarded(_, _)
Forwarded(out, fuel) ==
  IF fuel = 0 THEN 0
  ELSE IF out.t = "resp" THEN Forwarded(out.body, fuel - 1)
  ELSE IF out.t = "gen" THEN
     LET fi == FirstIdx(out.items, 1) IN
     IF fi # 0 /\ out.items[fi].t \in {"str", "bytes"} /\ out.closeable THEN out.id ELSE 0
  ELSE IF out.t = "file" /\ out.closeable THEN out.id
  ELSE 0
=============================================================================
