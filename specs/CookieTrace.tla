----------------------------- MODULE CookieTrace ----------------------------
(* Records of real cookie round trips and of concrete attacker edits.         *)
(* kind "plain": sent / got code points (got = [] and present = FALSE if the  *)
(*   cookie reads as absent)                                                  *)
(* kind "signed": cls (edit class), genuine (the presented value is exactly   *)
(*   the cookie minted for this reader's secret and this name), present,      *)
(*   valueOk, loads (number of pickle.loads calls during the read),           *)
(*   serverSigned (payload and signature are an unaltered pair the server     *)
(*   issued under this secret, presented under another cookie name)           *)
EXTENDS Naturals, Sequences, FiniteSets, TLC, Json, IOUtils, TLCExt
Traces == JsonDeserialize(IOEnv.TRACE_FILE)
VARIABLE tid
T == Traces[tid]
PropFails(t) ==
  IF t.kind = "plain" THEN
     (IF t.sent # <<>> /\ ~(t.present /\ t.got = t.sent) THEN {"PlainRoundTrip"} ELSE {})
  ELSE
     (IF ~t.genuine /\ ~t.serverSigned /\ t.loads > 0 THEN {"NoLoadsOnForgery"} ELSE {})
     \cup (IF ~t.genuine /\ t.present THEN {"ForgedAbsent"} ELSE {})
     \cup (IF t.genuine /\ ~(t.present /\ t.valueOk) THEN {"SignedRoundTrip"} ELSE {})
\* mechanism: exactly one deserialisation for a genuine cookie
MechOK(t) == t.kind = "plain" \/ (t.genuine => t.loads = 1)
Init == tid \in 1..Len(Traces)
Next == UNCHANGED tid
Spec == Init /\ [][Next]_tid
Bookkeeping ==
  /\ (MechOK(T) => TLCSet(1, TLCGet(1) \cup {tid}))
  /\ LET f == PropFails(T) IN (f # {} => TLCSet(2, TLCGet(2) \cup {<<tid, c>> : c \in f}))
ASSUME TLCSet(1, {}) /\ TLCSet(2, {})
Report == /\ PrintT(<<"MECH_MISSING", ToJson((1..Len(Traces)) \ TLCGet(1))>>)
          /\ PrintT(<<"PROP_FAILS", ToJson(TLCGet(2))>>)
=============================================================================
