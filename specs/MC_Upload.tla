------------------------------ MODULE MC_Upload ------------------------------
(* Both grains of FileUpload.save over every tree of 2 top-level names:        *)
(*   Atomic: save is one step (the sequential meaning)  - all clauses hold     *)
(*   Split : isdir/exists and open are separate steps with the environment      *)
(*           acting in between - NoClobber is violated (check-then-open race),  *)
(*           the other clauses hold.                                            *)
EXTENDS Upload, TLC
DataC == <<1, 2, 3>>
Contents == {<<>>, <<9>>}
Chunks == {0, 1, 65536}
A0 == [op |-> "init", i |-> 0, ow |-> FALSE, ch |-> 0, n |-> 0, k |-> 0, d |-> <<>>]
EnvActs == {[A0 EXCEPT !.op = o, !.i = i, !.d = d] : o \in {"mkfile", "mkchild"}, i \in Top, d \in Contents}
           \cup {[A0 EXCEPT !.op = o, !.i = i] : o \in {"mkdir", "rm", "mkchilddir", "rmchild"}, i \in Top}
OwnActs == {[A0 EXCEPT !.op = "saveto", !.ch = c] : c \in Chunks}
           \cup {[A0 EXCEPT !.op = "read", !.n = n] : n \in 1..2} \cup {[A0 EXCEPT !.op = "seek", !.k = k] : k \in 0..Len(DataC)}
SaveActs(o) == {[A0 EXCEPT !.op = o, !.i = i, !.ow = w, !.ch = c] : i \in 0..NTop, w \in BOOLEAN, c \in Chunks}
VARIABLES st, prev, act
vars == <<st, prev, act>>
Init == st = Init0 /\ prev = Init0 /\ act = A0
Do(a) == st' = Apply(st, a) /\ prev' = st /\ act' = a
AtomicNext == \/ \E a \in SaveActs("save") \cup OwnActs : Do(a)
              \/ \E a \in EnvActs : EnvOK(st, a) /\ Do(a)
SplitNext == \/ ~st.pend.on /\ \E a \in SaveActs("savecheck") \cup OwnActs : Do(a)
             \/ st.pend.on /\ Do([A0 EXCEPT !.op = "saveopen"])
             \/ \E a \in EnvActs : EnvOK(st, a) /\ Do(a)
AtomicSpec == Init /\ [][AtomicNext]_vars
SplitSpec == Init /\ [][SplitNext]_vars
\* prev/act are observation variables: the view keeps them only as far as the clauses need them
TypeOK == WellFormed(st) /\ st.pos \in 0..Len(st.data)
InvNoClobber == NoClobber(prev, act, st)
InvCursorKept == CursorKept(prev, act, st)
InvOneTarget == OneTarget(prev, act, st)
InvSavedIsRest == SavedIsRest(prev, act, st)
InvDirsStay == DirsStay(prev, act, st)
SinkBound == Len(st.sink) <= Len(st.data) + 1
View == <<st, Clauses(prev, act, st)>>
\* cover: one witness per (action kind, result) pair
CoverKey == <<act.op, st.res, act.ow, prev.pend.ow, act.ch = 0, prev.pos = 0, IF act.i \in Top THEN prev.fs[act.i].k ELSE "x">>
=============================================================================
