SPECIFICATION CSpec
CONSTANTS
 ShortReads = TRUE
 Scenario = "legal"
 MaxData = 0
 MaxCL = 0
 Bufs = {6,8}
 MaxBodies <- MB_none
INVARIANT Emit
VIEW CView
CHECK_DEADLOCK FALSE
