------------------------------ MODULE ErrTrace ------------------------------
(* Error responses of the real application.  A record: kind (404, 405, 400,   *)
(* 500, 413, critical), ch (channel of the marked payload), payload (with its *)
(* zq..qz markers), json (JSON requested), status, ctype, body.               *)
EXTENDS ErrPage, Json, IOUtils, TLCExt
Traces == JsonDeserialize(IOEnv.TRACE_FILE)
VARIABLE tid
T == Traces[tid]
MOPEN == <<122, 113>>
MCLOSE == <<113, 122>>
\* all regions zq...qz of the body (as sequences including the markers); "broken" if an opening marker is never closed
RECURSIVE Regions(_, _)
Regions(s, from) ==
  LET a == FindFrom(s, MOPEN, from) IN
  IF a < 0 THEN [ok |-> TRUE, rs |-> <<>>]
  ELSE LET b == FindFrom(s, MCLOSE, a + 2) IN
    IF b < 0 THEN [ok |-> FALSE, rs |-> <<>>]
    ELSE LET r == Regions(s, b + 2) IN [ok |-> r.ok, rs |-> <<Slice(s, a, b + 2)>> \o r.rs]
PropFails(t) ==
  LET rg == Regions(t.body, 0) IN
  IF t.json THEN
     (IF Find(t.ctype, <<97, 112, 112, 108, 105, 99, 97, 116, 105, 111, 110, SLASH, 106, 115, 111, 110>>) # 0 THEN {"JsonContentType"} ELSE {})
     \cup (IF ~ValidJsonObject(t.body) THEN {"ValidJson"} ELSE {})
  ELSE
     (IF ~rg.ok THEN {"Inert"} ELSE {})
     \cup (IF \E i \in 1..Len(rg.rs) : ~NoMarkup(rg.rs[i]) THEN {"NoMarkup"} ELSE {})
     \cup (IF \E i \in 1..Len(rg.rs) : ~Inert(rg.rs[i], t.payload, t.ch, t.kind = "critical") THEN {"Inert"} ELSE {})
\* mechanism: the region is exactly what the transcribed pipeline produces
MechOK(t) ==
  t.json \/ LET rg == Regions(t.body, 0) IN
            rg.ok /\ \A i \in 1..Len(rg.rs) :
               rg.rs[i] = (IF t.kind = "critical" THEN RenderedCritical(t.payload) ELSE RenderedUrlPiece(t.payload, t.ch))
Init == tid \in 1..Len(Traces)
Next == UNCHANGED tid
Spec == Init /\ [][Next]_tid
Bookkeeping ==
  /\ (MechOK(T) => TLCSet(1, TLCGet(1) \cup {tid}))
  /\ LET f == PropFails(T) IN (f # {} => TLCSet(2, TLCGet(2) \cup {<<tid, c>> : c \in f}))
ASSUME TLCSet(1, {}) /\ TLCSet(2, {})
Report == /\ PrintT(<<"MECH_MISSING", ToJson((1..Len(Traces)) \ TLCGet(1))>>)
          /\ PrintT(<<"PROP_FAILS", ToJson(TLCGet(2))>>)
=============================================================================
