SPECIFICATION Spec
CONSTANTS
  MaxV = 1
  FullInval = FALSE
  VarKeys <- K_body
VIEW View
INVARIANT TypeOK
INVARIANT OnlyKnownStale
INVARIANT NoThinAir
CHECK_DEADLOCK FALSE
