SPECIFICATION Spec
CONSTANTS Scenario = "env"
INVARIANT OneSR
INVARIANT CLRight
INVARIANT NoBody
INVARIANT ClosedOnce
INVARIANT Fail500
INVARIANT HooksInv
INVARIANT StatusOK
CHECK_DEADLOCK FALSE
