---------------------------- MODULE MC_UrlRecon -----------------------------
EXTENDS UrlRecon
CONSTANT MaxLen
Alpha == {97, 49, SLASH, DOTc, COLON, QM, HASH}
Scripts == {<<>>, <<SLASH>>, <<97>>, <<SLASH, 97>>, <<SLASH, 97, SLASH, 49, SLASH>>, <<SLASH, SLASH>>}
VARIABLES sn, xsn, allowX, pi
vars == <<sn, xsn, allowX, pi>>
Init == /\ sn \in Scripts /\ xsn \in {<<>>, <<SLASH, 49>>} /\ allowX \in BOOLEAN
        /\ pi \in SeqsUpTo(Alpha, MaxLen)
Next == UNCHANGED vars
Spec == Init /\ [][Next]_vars
Full == FullPath(sn, xsn, allowX, pi, <<SLASH>>)
Ref == RefFull(sn, xsn, allowX, pi)
\* reading 1 (does not hold): what a Request says about where it was asked is the PEP 3333 reconstruction
Faithful == Full = Ref
\* reading 2 (holds): it is, except for the five named classes of request
OnlyKnownDeviations == Full # Ref => Classes(sn, xsn, allowX, pi) # {}
\* each class is a real deviation for some request (no class is listed in vain)
ClassWitness(c) == ~(Classes(sn, xsn, allowX, pi) = {c} /\ Full # Ref)
W_scheme == ClassWitness("scheme")
W_dot == ClassWitness("dot-segment")
W_empty == ClassWitness("empty-segment")
W_mark == ClassWitness("query-or-fragment-mark")
W_script == ClassWitness("slash-only-script-name")
\* reading 3: always a path ("begins with a slash")
Rooted == Full # <<>> /\ Full[1] = SLASH
\* reading 4: the prefix that the domain_map option puts before the path (and announces in the application-name header)
\* is invisible in fullpath
App == <<SLASH, 116>>
MountInvisible == FullPath(sn, xsn, allowX, App \o pi, App) = Full
=============================================================================
