SPECIFICATION Spec
CONSTANTS
 RawLen = 6
 PairLen = 3
 NPairs = 4
INVARIANT Total
INVARIANT RoundTripInv
INVARIANT EncodeSafe
CHECK_DEADLOCK FALSE
