SPECIFICATION Spec
CONSTANTS
 MaxOps = 4
 Universe <- U_q
 HookRules <- H_q
 Alphabet <- A_q
 ProbeLen = 4
 CheckNames = TRUE
CONSTRAINT Depth
INVARIANT AgreeResolve
INVARIANT RefDefined
INVARIANT IndexAgree
INVARIANT FreshEquiv
CHECK_DEADLOCK FALSE
