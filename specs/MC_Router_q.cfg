SPECIFICATION Spec
CONSTANTS
 MaxOps = 3
 Universe <- U_q
 HookRules <- H_q
 Alphabet <- A_q
 ProbeLen = 2
 CheckNames = TRUE
CONSTRAINT Depth
INVARIANT AgreeResolve
INVARIANT RefDefined
INVARIANT IndexAgree
INVARIANT FreshEquiv
INVARIANT FreshVerdict
CHECK_DEADLOCK FALSE
