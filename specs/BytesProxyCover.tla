---------------------------- MODULE BytesProxyCover -------------------------
EXTENDS BytesProxy, Json
VARIABLE hist
CInit == Init /\ hist = <<>>
CNext == /\ nops < MaxOps /\ nops' = nops + 1
         /\ \/ \E p \in (-2)..(SrcLen + 2), w \in 0..2 : Seek(p, w) /\ hist' = Append(hist, [op |-> "seek", a |-> p, w |-> w, obs |-> obs'])
            \/ \E sz \in {-1, 0, 1, 3, SrcLen + 4} : Read(sz) /\ hist' = Append(hist, [op |-> "read", a |-> sz, w |-> 0, obs |-> obs'])
CSpec == CInit /\ [][CNext]_<<vars, hist>>
CView == vars
Emit == nops = 0 \/ PrintT(<<"W", ToJson([st |-> st, end |-> end, hist |-> hist])>>)
=============================================================================
