-------------------------------- MODULE Life --------------------------------
(* Thread-local request/response state of ombott (common_helpers.ts_props,   *)
(* Request, Response): C08, C09, C10.                                        *)
(*                                                                           *)
(* ts_props replaces the listed attributes of a class by properties that     *)
(* read and write a threading.local() store.  Each instance owns a store      *)
(* (kept in its _ts_props slot); a threading.local has one value per thread   *)
(* and attribute (`slot`).  Which store an accessor uses is decided by a      *)
(* per-class, PER-THREAD "current store" variable of the decorator's closure  *)
(* (`bound[<<thread, class>>]`), set by every __init__ of an instance of the  *)
(* class in that thread.  (Before the repair of /repo this variable was one   *)
(* per class for the whole process; see DESIGN.md, finding C10.)              *)
(*                                                                           *)
(* An accessor event is                                                       *)
(*   [ev |-> "bind"|"set"|"get"|"del", cls, inst, prop, vid]                 *)
(* where inst names the instance the accessor was called on (and, by         *)
(* construction of the names, the store that instance owns).                 *)
(*                                                                           *)
(* Property (Isolation, LifecycleAbs): every read by thread t on instance i  *)
(* returns what t last wrote on i since t last (re)initialised i, i.e.       *)
(* nothing written on behalf of another thread, another application object   *)
(* or an earlier request.                                                     *)
EXTENDS Naturals, Integers, Sequences, FiniteSets, TLC

ReqProps == {"environ", "_env_get"}
RespProps == {"_status_line", "_status_code", "_headers", "_cookies", "body"}
PropsOf(c) == IF c = "Req" THEN ReqProps ELSE RespProps
Unset == -1      \* attribute absent in this thread's view
NoneV == 0       \* Python None (what __init__ resets every property to)

\* slot and ghost are functions with an explicit default, so instances can appear dynamically
Look(f, k) == IF k \in DOMAIN f THEN f[k] ELSE Unset
Put(f, k, v) == [x \in DOMAIN f \cup {k} |-> IF x = k THEN v ELSE f[x]]
PutAll(f, ks, v) == [x \in DOMAIN f \cup ks |-> IF x \in ks THEN v ELSE f[x]]

\* The store an accessor call hits: the class-level closure variable (as the code is),
\* or the instance's own store (what a per-instance lookup would do).
\* `none`: what stands for "no current store in this thread yet" in the caller's vocabulary of stores
HitAsIs(bound, t, op, none) == IF <<t, op.cls>> \in DOMAIN bound THEN bound[<<t, op.cls>>] ELSE none
HitOwn(op) == op.inst

\* Effect of one accessor event by thread t that hit store h and (for get) observed value v.
\* st = [bound, slot, ghost, bad]
Stale == -2      \* ghost value for "not written by this thread during its current request"
Apply(st, t, op, h, v) ==
  IF op.ev = "req" THEN   \* a new top-level request starts on thread t: nothing it wrote earlier counts any more
    [st EXCEPT !.ghost = [k \in DOMAIN @ |-> IF k[1] = t THEN Stale ELSE @[k]]]
  ELSE IF op.ev = "bind" THEN
    [st EXCEPT !.bound = Put(@, <<t, op.cls>>, op.inst),
               !.slot = PutAll(@, {<<op.inst, t, p>> : p \in PropsOf(op.cls)}, NoneV),
               !.ghost = PutAll(@, {<<t, op.inst, p>> : p \in PropsOf(op.cls)}, NoneV)]
  ELSE IF op.ev = "set" THEN
    [st EXCEPT !.slot = Put(@, <<h, t, op.prop>>, v),
               !.ghost = Put(@, <<t, op.inst, op.prop>>, v)]
  ELSE IF op.ev = "del" THEN
    [st EXCEPT !.slot = Put(@, <<h, t, op.prop>>, Unset),
               !.ghost = Put(@, <<t, op.inst, op.prop>>, Unset)]
  ELSE \* get
    [st EXCEPT !.bad = @ \/ (v # Look(st.ghost, <<t, op.inst, op.prop>>))]

InitSt == [bound |-> <<>>, slot |-> <<>>, ghost |-> <<>>, bad |-> FALSE]
=============================================================================
