---------------------------- MODULE MC_WsgiCover ----------------------------
(* Prints every program x environment of MC_Wsgi for replay on the real app.  *)
EXTENDS MC_Wsgi, Json
Emit == PrintT(<<"W", ToJson([prog |-> prog, env |-> env])>>)
=============================================================================
