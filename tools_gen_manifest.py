#!/venv/bin/python
"""Regenerates MANIFEST.json from the table below (kept in one place so it stays valid)."""
import json, os
HERE = os.path.dirname(os.path.abspath(__file__))
props = [json.loads(l) for l in open(os.path.join(HERE, 'properties.jsonl'))]
CLAIMED = json.load(open(os.path.join(HERE, 'manifest_claims.json')))
checks = []
na = []
for p in props:
    pid = p['id']
    c = CLAIMED.get(pid)
    if not c:
        na.append({'property_id': pid, 'reason': 'check not built yet in this session (planned: see DESIGN.md section 6)'})
        continue
    checks.append({
        'property_id': pid,
        'quick_cmd': 'bin/check %s --tier quick' % pid,
        'thorough_cmd': 'bin/check %s --tier thorough' % pid,
        'evidence_file': '/verif/evidence/%s.json' % pid,
        'replay_cmd_template': 'bin/check %s --replay {path}' % pid,
        'engine': 'tlc+harness',
        'level_claimed': {'category': 'model_checking', 'text': c['text'], 'design_ref': c.get('design_ref', 'DESIGN.md section 6 ' + pid)},
        'level_note': c['note'],
        'technique': c['technique'],
    })
m = {
    'version': 1,
    'setup_cmd': 'true',
    'hooks': {
        'guard': 'OMBOTT_VERIF',
        'enable': 'no source hooks are needed so far: checks import /repo working tree (PYTHONPATH) and observe through public attributes, scripted wsgi.input, sys.settrace and audit hooks; bin/check sets OMBOTT_VERIF=1 for future guarded hooks',
        'baseline_off_cmd': 'cd /repo && /venv/bin/python -m pytest -ra -q -p no:cacheprovider --timeout=900 --continue-on-collection-errors',
        'source_commits': [],
        'add_only': True,
    },
    'engines': [
        {'name': 'tlc', 'path': '/opt/veriftools/tla/tla2tools.jar', 'serves_properties': [c['property_id'] for c in checks],
         'kind_free_text': 'TLC explicit-state model checker over the TLA+ modules in /verif/specs (exhaustive small scope, state-cover witness generation, batch trace validation)'},
        {'name': 'harness', 'path': '/verif/harness', 'serves_properties': [c['property_id'] for c in checks],
         'kind_free_text': 'Python drivers/recorders that replay TLC behaviours on the real code and record real executions as traces for TLC'},
    ],
    'checks': checks,
    'not_applicable': na,
    'notes': 'Verdict rules in DESIGN.md 2.3: exit 1 + VIOLATION only for property-level failures on the real code; DRIFT (mechanism differs from the implementation-shaped model, property holds) exits 0; exit 2 = machinery failure. Known findings in KNOWN_FINDINGS.json.',
}
json.dump(m, open(os.path.join(HERE, 'MANIFEST.json'), 'w'), indent=1)
print('claimed', len(checks), 'n/a', len(na))
