#!/venv/bin/python
"""tools/run_seeded.py [<Cxx-mk> ...] — apply each seeded change in /verif/seeded to a scratch git worktree of /repo's HEAD
(outside /repo and /verif, removed afterwards), run the quick check of its property against it (VERIF_REPO), and record the
outcome in seeded/<id>/meta.json. /repo itself is never modified, so this can run while other checks use /repo."""
import json, os, subprocess, sys, re
HERE = os.path.dirname(os.path.dirname(os.path.abspath(__file__)))
SEEDED = os.path.join(HERE, 'seeded')
ids = sys.argv[1:] or sorted(d for d in os.listdir(SEEDED) if os.path.isdir(os.path.join(SEEDED, d)))
extra = {}
summary = []
from concurrent.futures import ThreadPoolExecutor
JOBS = int(os.environ.get('SEEDED_JOBS') or 1)


def one(mid):
    WT = '/tmp/wt/seedrun-%d-%s' % (os.getpid(), mid)
    subprocess.run(['git', '-C', '/repo', 'worktree', 'add', '-q', '--detach', WT, 'HEAD'], check=True)
    try:
        d = os.path.join(SEEDED, mid)
        pid = mid.split('-')[0]
        ap = subprocess.run(['git', '-C', WT, 'apply', os.path.join(d, 'patch.diff')], capture_output=True, text=True)
        meta_p = os.path.join(d, 'meta.json')
        meta = json.load(open(meta_p)) if os.path.exists(meta_p) else {}
        notes = open(os.path.join(d, 'notes.md')).read() if os.path.exists(os.path.join(d, 'notes.md')) else ''
        meta.update({'id': mid, 'property': meta.get('property') or pid, 'base_commit': open(os.path.join(d, '.base')).read().strip() if os.path.exists(os.path.join(d, '.base')) else None,
                     'needs_to_manifest': meta.get('needs_to_manifest') or notes[:1500],
                     'confirmed_by': 'tools/confirm_mutant.sh: patch applied in a scratch worktree, 82 repository tests pass, demo.py exits 1 with the change and 0 without'})
        if ap.returncode != 0:
            meta['detection'] = {'status': 'patch no longer applies to /repo HEAD (a later fix: commit touched the same lines)', 'stderr': ap.stderr[-300:]}
            line = mid + ' PATCH-DOES-NOT-APPLY'
        else:
            env = dict(os.environ, VERIF_NO_EVIDENCE='1', VERIF_REPO=WT, PYTHONPATH=WT)
            t = subprocess.run(['/venv/bin/python', '-m', 'pytest', '-q', '-p', 'no:cacheprovider'], cwd=WT, capture_output=True, text=True, env=env).stdout.strip().splitlines()[-1]
            checks = meta.get('checks') or [pid]
            det = {}
            for c in checks:
                r = subprocess.run([os.path.join(HERE, 'bin/check'), c, '--tier', 'quick'], cwd=HERE, capture_output=True, text=True, env=env)
                what = re.findall(r'^  what: (.*)$', r.stdout, re.M)
                det[c] = {'exit': r.returncode, 'violation_lines': len(re.findall(r'^VIOLATION', r.stdout, re.M)), 'first': what[0][:300] if what else None}
            meta['detection'] = {'repo_tests_with_change': t, 'checks': det, 'detected': any(v['exit'] == 1 for v in det.values())}
            first = next((v['first'] for v in det.values() if v['first']), '') or ''
            line = '%s tests: %s | %s | %s' % (mid, t, {c: v['exit'] for c, v in det.items()}, first[:120])
        json.dump(meta, open(meta_p, 'w'), indent=1)
        return mid, meta['detection'].get('detected'), line
    finally:
        subprocess.run(['git', '-C', '/repo', 'worktree', 'remove', '--force', WT])


with ThreadPoolExecutor(JOBS) as ex:
    for mid, detd, line in ex.map(one, ids):
        print(line, flush=True)
        summary.append((mid, detd))
print('detected %d / %d' % (sum(1 for _, d in summary if d), len(summary)))
