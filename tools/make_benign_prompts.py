#!/venv/bin/python
"""tools/make_benign_prompts.py <tag> -- briefs for sub-agents that produce property-PRESERVING changes (false-alarm test)."""
import json, os, sys
tag = sys.argv[1]
props = {json.loads(l)['id']: json.loads(l) for l in open('/verif/properties.jsonl')}
fam = {'body': ['C04', 'C05', 'C06', 'C07', 'C12', 'C13'], 'router': ['C01', 'C02', 'C11', 'C19'], 'life': ['C08', 'C09', 'C10', 'C03'],
       'resp': ['C14', 'C15', 'C20', 'C03'], 'static': ['C16', 'C17', 'C18']}
os.makedirs('/tmp/wt', exist_ok=True)
for f, ids in fam.items():
    name = 'benign%s-%s' % (tag, f)
    wt, out = '/tmp/wt/' + name, '/tmp/wt/out-' + name
    txt = []
    for i in ids:
        p = props[i]
        q = p['quantifier']
        txt.append('%s — %s\n\nStatement: %s\n\nQuantified over: %s\n\nCode it is anchored in: %s' % (
            i, p['title'], p['statement'], q['text'] if isinstance(q, dict) else q, ', '.join(p['anchors']) if isinstance(p['anchors'], list) else p['anchors']))
    prior = []
    for d in sorted(os.listdir('/verif/benign')):
        if d.startswith(f + '-') or ('-' + f + '-') in d:
            nf = os.path.join('/verif/benign', d, 'notes.md')
            if os.path.exists(nf):
                lines = [l.strip() for l in open(nf) if l.strip()]
                prior.append('- ' + lines[0].lstrip('# ')[:200])
    prompt = f'''You are helping to evaluate a verification framework for the open-source Python project valq7711/ombott (a bottle.py spin-off WSGI micro framework: radix-tree router, streaming multipart parser, chunked-body decoder). The framework checks semantic properties of the code; we need to make sure that it does NOT raise false alarms on legitimate code changes. Your job is to produce realistic *property-preserving* changes.

You have your own scratch git worktree of the project at: {wt}   (work ONLY there; never touch or read /repo or /verif; do not use the network — there is none).
Python to use: /venv/bin/python  (run things as `cd {wt} && PYTHONPATH={wt} /venv/bin/python ...` so that `import ombott` resolves to YOUR worktree; verify with `python -c "import ombott; print(ombott.__file__)"`).
The project's test-suite: `cd {wt} && PYTHONPATH={wt} /venv/bin/python -m pytest -q -p no:cacheprovider` (82 tests, all pass on the unchanged tree).

The semantic properties under study:

''' + '\n\n-----\n\n'.join(txt) + f'''


TASK: produce FIVE different, independent code changes to the project's source (files under ombott/, not tests), in the code these properties are anchored in, such that each one:
  1. KEEPS every property above true (argue why, carefully: for every input / schedule / history in the quantifier the property still holds),
  2. still imports/compiles and the existing 82 tests still ALL pass with the change applied,
  3. is a change a maintainer could realistically make: a refactoring (renaming private attributes / helper functions / local variables / parameters, splitting or inlining a function, turning a function into a class or a closure into a method, reordering independent statements, replacing a loop by a comprehension, changing a private data structure, moving code between modules, adding type hints / dataclasses / __slots__), a performance tweak (different internal buffer / read size, caching that is correctly invalidated and correctly keyed, avoiding a copy where it is safe, precompiled regexes), a change of behaviour the properties do not constrain (wording of messages, additional logging, a different but still correct status reason phrase, a different exception class inside the framework that is still mapped to the same client-visible status, stricter/looser handling of inputs OUTSIDE the properties' quantifiers), a new optional feature that is off by default, or a defensive fix that does not change behaviour inside the quantifier.
  4. the five changes should differ in kind and touch different functions.
  Make them non-trivial: a verification harness that pokes at internals, depends on private names, on exact error-message text, on exact internal read sizes, on the number or order of internal calls, on object identity, on timing, or on module layout would be disturbed by them, while a harness that only relies on what the properties state would not.

Earlier rounds already produced the following changes; do NOT repeat them, find different places and different kinds:
{chr(10).join(prior)}

For each change k in 1..5 write into {out}/ :
  - b<k>.diff      : the patch, produced with `git -C {wt} diff > ...` against the unchanged worktree HEAD (must apply cleanly with `git apply` on a clean checkout of the same commit)
  - b<k>_notes.md  : 5-10 lines: what was changed, which kind it is, and the argument why each listed property still holds.

Procedure you must follow and report: for each change — apply it, run the full test-suite (must be 82 passed), exercise the changed code path by hand with a few requests/inputs to make sure behaviour relevant to the properties is unchanged (a differential comparison against the unchanged tree is best), then `git -C {wt} checkout -- .` to revert. Leave the worktree clean (reverted) at the end. Do not commit anything.
Final answer: a short summary of the five changes.
'''
    open('/tmp/wt/prompt-%s.txt' % name, 'w').write(prompt)
    print(name, len(prompt))
