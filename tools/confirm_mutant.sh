#!/bin/bash
# tools/confirm_mutant.sh <Cxx> <k> [<worktree>]  — confirm agent deliverable /tmp/wt/out-<Cxx>/m<k>.* in a scratch worktree
# and, when confirmed, store it as /verif/seeded/<Cxx>-m<k>/ (patch.diff, demo.py, notes.md, meta.json is written separately)
set -u
pid=$1; k=$2; wt=${3:-/tmp/wt/$pid}; out=/tmp/wt/out-$pid
cd "$wt" || exit 2
git checkout -q -- . ; git clean -fdq
base=$(git rev-parse --short HEAD)
git apply "$out/m$k.diff" || { echo "APPLY-FAILED"; exit 1; }
t=$(PYTHONPATH=$wt /venv/bin/python -m pytest -q -p no:cacheprovider 2>&1 | tail -1)
PYTHONPATH=$wt timeout 600 /venv/bin/python "$out/m${k}_demo.py" >/tmp/wt/demo_with.txt 2>&1; rc_with=$?
git checkout -q -- . ; git clean -fdq
PYTHONPATH=$wt timeout 600 /venv/bin/python "$out/m${k}_demo.py" >/tmp/wt/demo_without.txt 2>&1; rc_without=$?
echo "$pid m$k base=$base tests: $t | demo with change rc=$rc_with | without rc=$rc_without"
if [[ "$t" == 82\ passed* && $rc_with -ne 0 && $rc_without -eq 0 ]]; then
  d=/verif/seeded/${TARGET:-$pid-m$k}; mkdir -p $d
  cp "$out/m$k.diff" $d/patch.diff; cp "$out/m${k}_demo.py" $d/demo.py; cp "$out/m${k}_notes.md" $d/notes.md
  echo "$base" > $d/.base
  echo CONFIRMED
else
  echo NOT-CONFIRMED
fi
