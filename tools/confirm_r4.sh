#!/bin/bash
# tools/confirm_r4.sh <Cxx>  — confirm round-4 agent deliverables /tmp/wt/out-<Cxx>r4/m{1,2}.* as seeded/<Cxx>-m7, -m8
pid=$1
for k in 1 2; do TARGET=$pid-m$((k+6)) /verif/tools/confirm_mutant.sh ${pid}r4 $k /tmp/wt/${pid}r4 | tail -1; done
git -C /repo worktree remove --force /tmp/wt/${pid}r4 2>/dev/null
