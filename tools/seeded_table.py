#!/venv/bin/python
"""Prints the markdown table of seeded changes and which check detects them (from seeded/*/meta.json)."""
import json, os
HERE = os.path.dirname(os.path.dirname(os.path.abspath(__file__)))
S = os.path.join(HERE, 'seeded')
rows = []
for d in sorted(os.listdir(S)):
    p = os.path.join(S, d, 'meta.json')
    if not os.path.exists(p):
        continue
    m = json.load(open(p))
    det = m.get('detection', {})
    checks = det.get('checks', {})
    caught = [c for c, v in checks.items() if v.get('exit') == 1]
    first = ''
    for c in caught:
        first = (checks[c].get('first') or '')[:110].replace('|', '/')
        break
    need = (m.get('needs_to_manifest') or '').strip().splitlines()
    need = next((l for l in need if l.strip() and not l.startswith('#')), '')[:120].replace('|', '/')
    status = ', '.join(caught) if caught else (det.get('status') or 'NOT DETECTED')
    rows.append('| %s | %s | %s | %s | %s |' % (d, m.get('property'), need, status, first))
print('| seeded change | property | what it is / needs | detected by (quick) | first report |')
print('|---|---|---|---|---|')
print('\n'.join(rows))
