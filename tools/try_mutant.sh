#!/bin/bash
# tools/try_mutant.sh <patch.diff> <Cxx> [<Cyy> ...]
# Applies a seeded change to /repo, runs the quick checks of the given properties, and reverts /repo.
# Never leaves /repo modified. Prints one line per check: <pid> exit=<rc>.
set -u
patch=$1; shift
cd /repo || exit 2
if ! git diff --quiet; then echo "/repo is dirty, refusing"; exit 2; fi
git apply "$patch" || { echo "patch does not apply"; exit 2; }
trap 'git -C /repo checkout -- . ; git -C /repo clean -fdq -- ombott' EXIT
/venv/bin/python -m pytest -q -p no:cacheprovider 2>&1 | tail -1
for pid in "$@"; do
  out=$(cd /verif && VERIF_NO_EVIDENCE=1 bin/check "$pid" --tier "${TIER:-quick}" 2>&1)
  rc=$?
  echo "$pid exit=$rc $(echo "$out" | grep -c '^VIOLATION') violation lines; $(echo "$out" | grep -m1 'what:' | cut -c1-220)"
done
