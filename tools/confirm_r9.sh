#!/bin/bash
# tools/confirm_r9.sh <Cxx>  — confirm round-9 agent deliverables /tmp/wt/out-<Cxx>r9/m{1,2}.* as seeded/<Cxx>-m17, -m18
pid=$1
for k in 1 2; do TARGET=$pid-m$((k+16)) /verif/tools/confirm_mutant.sh ${pid}r9 $k /tmp/wt/${pid}r9 | tail -1; done
git -C /repo worktree remove --force /tmp/wt/${pid}r9 2>/dev/null
