#!/venv/bin/python
"""tools/run_benign.py [--checks C01,C02,..] [<name> ...] — apply each property-PRESERVING change in /verif/benign/<name>/patch.diff
to a scratch git worktree of /repo's HEAD (outside /repo and /verif, removed afterwards), run the quick checks against it
(VERIF_REPO) and record in benign/<name>/meta.json whether any check raised an alarm (exit 1) or broke (exit 2).
A property-preserving change must give exit 0 everywhere: anything else is a false alarm of the machinery."""
import json, os, subprocess, sys, re
from concurrent.futures import ThreadPoolExecutor
HERE = os.path.dirname(os.path.dirname(os.path.abspath(__file__)))
BEN = os.path.join(HERE, 'benign')
args = sys.argv[1:]
ALL = ['C%02d' % i for i in range(1, 21)]
checks_arg = None
if args and args[0] == '--checks':
    checks_arg = args[1].split(',')
    args = args[2:]
names = args or sorted(d for d in os.listdir(BEN) if os.path.isdir(os.path.join(BEN, d)))


def one(name):
    d = os.path.join(BEN, name)
    WT = '/tmp/wt/benrun-%d-%s' % (os.getpid(), name)
    subprocess.run(['git', '-C', '/repo', 'worktree', 'add', '-q', '--detach', WT, 'HEAD'], check=True)
    try:
        meta_p = os.path.join(d, 'meta.json')
        meta = json.load(open(meta_p)) if os.path.exists(meta_p) else {}
        ap = subprocess.run(['git', '-C', WT, 'apply', os.path.join(d, 'patch.diff')], capture_output=True, text=True)
        if ap.returncode != 0:
            meta['result'] = {'status': 'patch does not apply to /repo HEAD', 'stderr': ap.stderr[-300:]}
            json.dump(meta, open(meta_p, 'w'), indent=1)
            return name, 'NO-APPLY', {}
        env = dict(os.environ, VERIF_NO_EVIDENCE='1', VERIF_REPO=WT, PYTHONPATH=WT)
        t = subprocess.run(['/venv/bin/python', '-m', 'pytest', '-q', '-p', 'no:cacheprovider'], cwd=WT, capture_output=True, text=True, env=env).stdout.strip().splitlines()[-1]
        res = {}
        for c in (checks_arg or meta.get('checks') or ALL):
            r = subprocess.run([os.path.join(HERE, 'bin/check'), c, '--tier', 'quick'], cwd=HERE, capture_output=True, text=True, env=env)
            what = re.findall(r'^  what: (.*)$', r.stdout, re.M)
            drift = re.findall(r'drift=(\d+)', r.stdout)
            res[c] = {'exit': r.returncode, 'first': what[0][:300] if what else None, 'drift': int(drift[-1]) if drift else None,
                      'tail': (r.stdout + r.stderr)[-400:] if r.returncode == 2 else None}
        meta.update({'name': name, 'repo_tests_with_change': t, 'result': res,
                     'false_alarm': sorted(c for c, v in res.items() if v['exit'] != 0)})
        json.dump(meta, open(meta_p, 'w'), indent=1)
        return name, t, res
    finally:
        subprocess.run(['git', '-C', '/repo', 'worktree', 'remove', '--force', WT])


with ThreadPoolExecutor(3) as ex:
    for name, t, res in ex.map(one, names):
        bad = {c: v['exit'] for c, v in res.items() if v['exit'] != 0}
        dr = {c: v['drift'] for c, v in res.items() if v.get('drift')}
        print(name, '| tests:', t, '| alarms/broken:', bad or 'none', '| drift:', dr or 'none', flush=True)
        for c in bad:
            print('   ', c, (res[c]['first'] or res[c]['tail'] or '')[-300:].replace('\n', ' | '))
