#!/bin/bash
# tools/confirm_r5.sh <Cxx>  — confirm round-5 agent deliverables /tmp/wt/out-<Cxx>r5/m{1,2}.* as seeded/<Cxx>-m9, -m10
pid=$1
for k in 1 2; do TARGET=$pid-m$((k+8)) /verif/tools/confirm_mutant.sh ${pid}r5 $k /tmp/wt/${pid}r5 | tail -1; done
git -C /repo worktree remove --force /tmp/wt/${pid}r5 2>/dev/null
