#!/venv/bin/python
"""tools/make_seed_prompts.py <round-tag>  -- writes /tmp/wt/prompt-<Cxx><tag>.txt for every property: the brief given to a fresh
sub-agent that is to produce two subtle property-breaking changes (it gets the property text and a scratch worktree only)."""
import json, os, sys
tag = sys.argv[1]
props = [json.loads(l) for l in open('/verif/properties.jsonl')]
os.makedirs('/tmp/wt', exist_ok=True)
for p in props:
    pid = p['id']
    wt = '/tmp/wt/%s%s' % (pid, tag)
    out = '/tmp/wt/out-%s%s' % (pid, tag)
    prior = []
    for k in range(1, 20):
        f = '/verif/seeded/%s-m%d/notes.md' % (pid, k)
        if os.path.exists(f):
            lines = [l.strip() for l in open(f) if l.strip()]
            desc = lines[0].lstrip('# ')
            if len(lines) > 1:
                desc += ' -- ' + lines[1][:200]
            prior.append('- ' + desc)
    q = p['quantifier']
    text = f'''You are helping to evaluate a verification framework by producing realistic *seeded defects* for the open-source Python project valq7711/ombott (a bottle.py spin-off WSGI micro framework: radix-tree router, streaming multipart parser, chunked-body decoder).

You have your own scratch git worktree of the project at: {wt}   (work ONLY there; never touch or read /repo or /verif; do not use the network — there is none).
Python to use: /venv/bin/python  (run things as `cd {wt} && PYTHONPATH={wt} /venv/bin/python ...` so that `import ombott` resolves to YOUR worktree; verify with `python -c "import ombott; print(ombott.__file__)"`).
The project's test-suite: `cd {wt} && PYTHONPATH={wt} /venv/bin/python -m pytest -q -p no:cacheprovider` (82 tests, all pass on the unchanged tree).

The semantic property under study:

{pid} — {p['title']}

Statement: {p['statement']}

Quantified over: {q['text'] if isinstance(q, dict) else q}

Why the existing tests cannot settle it: {p['why_tests_cant']}

Code it is anchored in: {', '.join(p['anchors']) if isinstance(p['anchors'], list) else p['anchors']}


TASK: produce TWO different, independent code changes (mutations) to the project's source (files under ombott/, not tests) such that each one:
  1. BREAKS the property above (in a real, demonstrable way),
  2. still imports/compiles and the existing 82 tests still ALL pass with the change applied,
  3. is *subtle*: it needs something specific to manifest — a particular interleaving or read fragmentation, a fault at a particular point, a multi-step sequence of operations, an unusual input, or two cooperating sites that each look fine alone — NOT something ordinary use would expose at once (e.g. not "always return empty body"). It should look like a plausible refactoring/optimisation/bug a maintainer could introduce.
  4. the two changes should be in different places / mechanisms if possible.

For each change k in {{1,2}} write into {out}/ :
  - m<k>.diff      : the patch, produced with `git -C {wt} diff > ...` against the unchanged worktree HEAD (must apply cleanly with `git apply` on a clean checkout of the same commit)
  - m<k>_demo.py   : a small standalone program (run as `PYTHONPATH=<tree> /venv/bin/python m<k>_demo.py`) that exits 0 and prints PASS on the UNCHANGED tree and exits 1 and prints FAIL with the change applied. It must fail because the property is violated (assert the property-level behaviour, not internals).
  - m<k>_notes.md  : 5-10 lines: what was changed, why it breaks the property, what specific circumstance it needs to manifest, and the commands you ran (tests + demo, before/after) with their results.

Procedure you must follow and report: for each change — apply it, run the full test-suite (must be 82 passed), run the demo (must FAIL), `git -C {wt} checkout -- .` to revert, run the demo again (must PASS). Leave the worktree clean (reverted) at the end. Do not commit anything.
Final answer: a short summary of the two changes and the verification results.


ADDITIONAL CONSTRAINT FOR THIS ROUND: earlier rounds already produced the following changes for this property. Do NOT repeat these ideas or minor variations of them; find two changes in different code locations / mechanisms / clauses of the property. Read the property statement and its quantifier again word by word and look for a clause, an input class, a configuration or an order of events that none of the earlier changes touches; also consider state kept at module or class level, caches, default arguments, rarely used public API of the anchored code, interactions with configuration options and between features, error paths, and platform/stdlib behaviour the code relies on:
{chr(10).join(prior)}

Also note: the worktree is at the project's current HEAD, which already contains several recent "fix:" commits (see `git log`); do not simply revert one of those. If the unchanged tree still violates the property somewhere, that is pre-existing: your demo must PASS on the unchanged tree, so build it on cases that work on the unchanged tree.
'''
    open('/tmp/wt/prompt-%s%s.txt' % (pid, tag), 'w').write(text)
print('prompts written for round', tag)
