#!/bin/bash
# tools/confirm_r6.sh <Cxx>  — confirm round-6 agent deliverables /tmp/wt/out-<Cxx>r6/m{1,2}.* as seeded/<Cxx>-m11, -m12
pid=$1
for k in 1 2; do TARGET=$pid-m$((k+10)) /verif/tools/confirm_mutant.sh ${pid}r6 $k /tmp/wt/${pid}r6 | tail -1; done
git -C /repo worktree remove --force /tmp/wt/${pid}r6 2>/dev/null
