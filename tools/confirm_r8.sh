#!/bin/bash
# tools/confirm_r8.sh <Cxx>  — confirm round-7 agent deliverables /tmp/wt/out-<Cxx>r8/m{1,2}.* as seeded/<Cxx>-m15, -m16
pid=$1
for k in 1 2; do TARGET=$pid-m$((k+14)) /verif/tools/confirm_mutant.sh ${pid}r8 $k /tmp/wt/${pid}r8 | tail -1; done
git -C /repo worktree remove --force /tmp/wt/${pid}r8 2>/dev/null
