#!/venv/bin/python
"""Rewrites the block between the SEEDED_TABLE markers of DESIGN.md from seeded/*/meta.json (after tools/run_seeded.py)."""
import json, os, subprocess
HERE = os.path.dirname(os.path.dirname(os.path.abspath(__file__)))
S = os.path.join(HERE, 'seeded')
n = det = 0
missed = []
for d in sorted(os.listdir(S)):
    p = os.path.join(S, d, 'meta.json')
    if not os.path.exists(p):
        continue
    m = json.load(open(p))
    n += 1
    if m.get('detection', {}).get('detected'):
        det += 1
    else:
        missed.append(d)
table = subprocess.run([os.path.join(HERE, 'tools', 'seeded_table.py')], capture_output=True, text=True).stdout
intro = ('Result of the last run of `tools/run_seeded.py` over all %d stored changes on the committed machinery (each applied to a '
         'scratch worktree of /repo HEAD, the 82 repository tests run, then the quick check of its property): **%d detected, %d not '
         'detected**%s. Table from `tools/seeded_table.py`.\n\n' % (n, det, n - det, (' (' + ', '.join(missed) + ')') if missed else ''))
p = os.path.join(HERE, 'DESIGN.md')
s = open(p).read()
b, e = '<!-- SEEDED_TABLE_BEGIN -->', '<!-- SEEDED_TABLE_END -->'
i, j = s.index(b) + len(b), s.index(e)
open(p, 'w').write(s[:i] + '\n' + intro + table + s[j:])
print('table refreshed: %d changes, %d detected' % (n, det))
