#!/bin/bash
# tools/confirm_r3.sh <Cxx>  — confirm round-3 agent deliverables /tmp/wt/out-<Cxx>r3/m{1,2}.* as seeded/<Cxx>-m5, -m6
pid=$1
for k in 1 2; do TARGET=$pid-m$((k+4)) /verif/tools/confirm_mutant.sh ${pid}r3 $k /tmp/wt/${pid}r3 | tail -1; done
git -C /repo worktree remove --force /tmp/wt/${pid}r3 2>/dev/null
