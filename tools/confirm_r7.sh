#!/bin/bash
# tools/confirm_r7.sh <Cxx>  — confirm round-7 agent deliverables /tmp/wt/out-<Cxx>r7/m{1,2}.* as seeded/<Cxx>-m13, -m14
pid=$1
for k in 1 2; do TARGET=$pid-m$((k+12)) /verif/tools/confirm_mutant.sh ${pid}r7 $k /tmp/wt/${pid}r7 | tail -1; done
git -C /repo worktree remove --force /tmp/wt/${pid}r7 2>/dev/null
