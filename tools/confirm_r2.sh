#!/bin/bash
# tools/confirm_r2.sh <Cxx>  — confirm round-2 agent deliverables /tmp/wt/out-<Cxx>r2/m{1,2}.* as seeded/<Cxx>-m3, -m4
pid=$1
for k in 1 2; do TARGET=$pid-m$((k+2)) /verif/tools/confirm_mutant.sh ${pid}r2 $k /tmp/wt/${pid}r2 | tail -1; done
git -C /repo worktree remove --force /tmp/wt/${pid}r2 2>/dev/null
